#!/bin/sh
# usage: tv.sh <Spec> <trace.ndjson>   -- validate one trace with one trace spec; prints monitor failures
SPEC=$1; T=$(readlink -f $2); W=/verif/work/tv.$$
cd /verif/spec && TRACE=$T JAVA_TOOL_OPTIONS="-Xss1g -Dtlc2.tool.queue.IStateQueue=StateDeque" timeout ${TV_TIMEOUT:-300} tlc -workers 1 -metadir $W -cleanup -noGenerateSpecTE -config $SPEC.cfg $SPEC.tla 2>&1 | grep -v "^Parsing\|^Semantic\|^Linting\|^Picked up\|^TLC2\|^Running\|^Starting\|^Computing\|^Finished computing\|^  \|^The average\|^$"
rm -rf $W

#!/usr/bin/env python3
"""seed_eval.py <worktree> <seed-id> <property>  [--checks C01,C02,...]

Confirms a seeded change (made by an independent agent in a scratch worktree) and runs the
registered checks against it:
  1. existing test suite passes with the change (demo moved aside),
  2. the demonstration fails with the change and passes without it,
  3. the patch is stored under /verif/seeded/<seed-id>/ and applied to /repo,
     every check's quick command is run, then /repo is restored.
"""
import sys, os, subprocess, json, shutil, glob, time

def sh(cmd, cwd=None, timeout=3600):
    r = subprocess.run(cmd, shell=True, cwd=cwd, stdout=subprocess.PIPE, stderr=subprocess.STDOUT, text=True, timeout=timeout)
    return r.returncode, r.stdout

def main():
    wt, sid, prop = sys.argv[1], sys.argv[2], sys.argv[3]
    checks = None
    if "--checks" in sys.argv:
        checks = sys.argv[sys.argv.index("--checks") + 1].split(",")
    dest = os.path.join("/verif/seeded", sid)
    os.makedirs(dest, exist_ok=True)
    demos = glob.glob(os.path.join(wt, "tests", "demo_*.rs")) + glob.glob(os.path.join(wt, "examples", "demo_*.rs"))
    assert demos, "no demo file"
    demo = demos[0]
    kind = "test" if "/tests/" in demo else "example"
    name = os.path.basename(demo)[:-3]
    meta = dict(seed=sid, property=prop, demo=os.path.relpath(demo, wt), ran=[])
    # 1. suite passes with the change (demo aside)
    aside = demo + ".aside"
    os.rename(demo, aside)
    rc, out = sh("cargo test --offline 2>&1 | grep -E 'test result|FAILED|error' ", cwd=wt)
    os.rename(aside, demo)
    suite_ok = "FAILED" not in out and "error" not in out and "test result: ok" in out
    meta["suite_passes_with_change"] = suite_ok
    meta["ran"].append("cargo test --offline (demo moved aside): " + ("pass" if suite_ok else "FAIL"))
    # 2. demo fails with, passes without
    feat = " --features rayon,serde" if prop in ("C15", "C16") else ""
    run = ("cargo test --offline%s --test %s" % (feat, name)) if kind == "test" else ("timeout 120 cargo run --offline --release --example %s" % name)
    rc_with, out_with = sh("timeout 600 " + run, cwd=wt)
    # (no `git stash`: the stash is shared by all worktrees of a repository)
    rc, saved = sh("git diff -- src", cwd=wt)
    tmp = os.path.join(wt, ".seed_saved.diff")
    open(tmp, "w").write(saved)
    sh("git checkout -- src", cwd=wt)
    rc_without, out_without = sh("timeout 600 " + run, cwd=wt)
    rc, out = sh("git apply .seed_saved.diff", cwd=wt)
    assert rc == 0, out
    os.remove(tmp)
    meta["demo_fails_with_change"] = rc_with != 0
    meta["demo_passes_without_change"] = rc_without == 0
    meta["ran"].append("%s with change: exit %d; without: exit %d" % (run, rc_with, rc_without))
    # collect
    rc, diff = sh("git diff -- src", cwd=wt)
    open(os.path.join(dest, "patch.diff"), "w").write(diff)
    shutil.copy(demo, os.path.join(dest, os.path.basename(demo)))
    if os.path.exists(os.path.join(wt, "MUTANT.md")):
        shutil.copy(os.path.join(wt, "MUTANT.md"), os.path.join(dest, "MUTANT.md"))
    confirmed = suite_ok and rc_with != 0 and rc_without == 0
    meta["confirmed"] = confirmed
    print("confirmed:", confirmed, "| suite_ok", suite_ok, "| demo with", rc_with, "| demo without", rc_without)
    # 3. run the checks against it
    isolated = "--isolated" in sys.argv
    if "--no-checks" in sys.argv:
        json.dump(meta, open(os.path.join(dest, "meta.json"), "w"), indent=1)
        return
    if confirmed:
        vdir = "/verif"
        env = "VERIF_NO_EVIDENCE=1 "
        if isolated:
            # a private copy of the framework whose harness is built against the worktree itself:
            # /repo stays untouched, so other work can go on meanwhile
            vdir = "/tmp/mv/%s/verif" % sid
            shutil.rmtree("/tmp/mv/%s" % sid, ignore_errors=True)
            os.makedirs(vdir)
            sh("rsync -a --exclude work --exclude harness/target --exclude .git --exclude seeded /verif/ %s/" % vdir)
            os.makedirs(vdir + "/work", exist_ok=True)
            sh("cp -r /verif/work/mc %s/work/mc" % vdir)
            sh("sed -i 's#path = \"/repo\"#path = \"%s\"#' %s/harness/Cargo.toml" % (wt, vdir))
            env = "VERIF_NO_EVIDENCE=1 VERIF_REPO=%s " % wt
            os.rename(demo, demo + ".aside")   # the demo must not be part of what is built/tested
        else:
            rc, out = sh("git -C /repo status --porcelain")
            assert out.strip() == "", "/repo not clean: " + out
            rc, out = sh("git -C /repo apply %s" % os.path.join(dest, "patch.diff"))
            assert rc == 0, out
        results = {}
        try:
            man = json.load(open("/verif/MANIFEST.json"))
            for c in man["checks"]:
                pid = c["property_id"]
                if checks and pid not in checks:
                    continue
                t0 = time.time()
                rc, out = sh(env + c["quick_cmd"], cwd=vdir, timeout=3600)
                lines = [l for l in out.splitlines() if l.startswith(("VIOLATION", "SPEC-DRIFT", "KNOWN-FINDING", "TOOL-ERROR"))]
                results[pid] = dict(exit=rc, lines=lines[:6], wall_s=round(time.time() - t0))
                print(pid, "exit", rc, lines[:3], flush=True)
        finally:
            if isolated:
                os.rename(demo + ".aside", demo)
                shutil.rmtree("/tmp/mv/%s" % sid, ignore_errors=True)
            else:
                sh("git -C /repo checkout -- .")
        meta["how"] = "isolated copy of /verif built against the worktree" if isolated else "patch applied to /repo, checks run, /repo restored"
        meta["checks"] = results
        meta["caught_by"] = sorted(p for p, r in results.items() if r["exit"] == 1)
        meta["drift_noted_by"] = sorted(p for p, r in results.items() if any(l.startswith("SPEC-DRIFT") for l in r["lines"]))
        print("caught by:", meta["caught_by"], "drift:", meta["drift_noted_by"])
    json.dump(meta, open(os.path.join(dest, "meta.json"), "w"), indent=1)

if __name__ == "__main__":
    main()

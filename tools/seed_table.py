#!/usr/bin/env python3
"""seed_table.py : markdown table of the seeded changes from seeded/*/meta.json (+ seeded/descriptions.json)"""
import json, glob, os
desc = json.load(open("/verif/seeded/descriptions.json"))
rows = []
for d in sorted(glob.glob("/verif/seeded/S*/")):
    mp = os.path.join(d, "meta.json")
    if not os.path.exists(mp):
        continue
    m = json.load(open(mp))
    sid = m["seed"].split("-")[0]
    prop = m["property"]
    cb = m.get("caught_by") or []
    own = prop in cb
    others = [c for c in cb if c != prop]
    drift = [c for c in (m.get("drift_noted_by") or []) if c not in cb]
    tool = [k for k, v in (m.get("checks") or {}).items() if v["exit"] == 2]
    rows.append("| %s | %s | %s | %s | %s | %s |" % (sid, prop, desc.get(sid, ""), "**yes**" if own else "no",
                " ".join(others) or "–", (" ".join(drift) or "–") + (" (tool error: %s)" % " ".join(tool) if tool else "")))
print("| seed | for | change (what it needs to show) | caught by its own property's check | also reported by | drift only |")
print("|---|---|---|---|---|---|")
print("\n".join(rows))

#!/bin/sh
# Negative controls: configurations of the specifications that are *expected* to be rejected by TLC.
# Each one encodes a wrong variant of the mechanism (a defect that existed, a rejected repair, a seeded
# change): if TLC stopped finding them, the corresponding invariant would have lost its teeth.
#   exit 0: every control was rejected as expected; 1: a control passed (vacuous invariant); 2: tool error
cd /verif/spec || exit 2
export JAVA_TOOL_OPTIONS="-Xss256m"
W=/verif/work/selftest.$$
rc=0
run() { # module cfg expected-invariant
  out=$(timeout 1800 tlc -workers 4 -metadir $W -cleanup -noGenerateSpecTE -config $2.cfg $1.tla 2>&1)
  if echo "$out" | grep -q "Invariant $3 is violated"; then echo "ok   $2: $3 violated as expected";
  elif echo "$out" | grep -q "No error has been found"; then echo "FAIL $2: accepted (expected $3 to be violated)"; rc=1;
  else echo "TOOL $2: $(echo "$out" | grep -m1 Error)"; [ $rc = 0 ] && rc=2; fi
  rm -rf $W
}
run MCCursor MCCursorD3    CursorExact   # D3/D5: reflect_remove after the erase, none at all on unwind
run MCCursor MCCursorD3rel CursorExact
run MCCursor MCCursorS06   CursorExact   # rejected repair: reflect_insert does not re-arm the next bucket
run MCCursor MCCursorS01   CursorExact   # snapshot taken after reflect_remove
run MCPar    MCParBug      Covered       # a split whose tail starts one group late
run MCCount  MCNegD1       NoErr         # FixD1 = FALSE: shrink_to keeps an emptied old table
run MCCount  MCNegD4       ReserveContract # FixD4 = FALSE: wrapping additions in reserve
run MCCount  MCNegD6       NoErr         # FixD6 = FALSE: clone_from into an empty table with tombstones
run MCCount  MCNegD8       NoErr         # FixD8 = FALSE, debug: (hint + 1) / 2 overflows in extend
run MCCloneFrom MCNegD9    Findable      # FixD9 = FALSE: clone_from interrupted while carrying the leftovers
run MCEntry MCEntryS18     HandleCoherent # OccupiedEntry::insert carries: the handle's bucket is vacated under it (seeds S18/S23/S27)
run MCEntry MCEntryS38     HandleCoherent # or_insert* on a present old-table key carries before returning the reference (seed S38)
run MCIters MCItersS52    ItExact        # into_iter / drain drop the old table when lo.len() == 0 and return that call's None (seed S52)
run MCIters MCItersS29    CursorAtRest   # retain's erase does not reflect, one re-sync after the loop: a panicking predicate leaves the cursor stale (seed S29)
exit $rc

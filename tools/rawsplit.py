#!/usr/bin/env python3
"""rawsplit.py <raw records ndjson> <outprefix> [GW]
Splits the records written by the crate's span tracing (GRIDDLE_VERIF_TRACE) by R, de-duplicates them
(keeping a count), clamps nothing (records with arguments beyond the model's usize stand-in are kept and
skipped by the spec), and writes <outprefix>.R<r>.ndjson with a header line for TraceRaw.tla."""
import sys, json, collections
src, pre = sys.argv[1], sys.argv[2]
gw = int(sys.argv[3]) if len(sys.argv) > 3 else 16
by = collections.defaultdict(collections.Counter)
total = 0
for l in open(src, errors="replace"):
    l = l.strip()
    if not l.startswith("{") or not l.endswith("}"):
        continue        # a line torn by a crashing test process
    try:
        e = json.loads(l)
    except Exception:
        continue
    total += 1
    n = e["n"] if e["n"] <= 2_000_000_000 else 2_000_000_000
    by[e["r"]][(e["a"], n, tuple(e["pre"]), tuple(e["pre2"]), tuple(e["post"]))] += 1
out = {}
for r, c in by.items():
    p = "%s.R%d.ndjson" % (pre, r)
    with open(p, "w") as f:
        f.write(json.dumps({"op": "Header", "R": r, "GW": gw, "profile": "debug", "records": sum(c.values()), "distinct": len(c)}) + "\n")
        for (a, n, pr, pr2, po), k in sorted(c.items()):
            f.write(json.dumps({"a": a, "n": n, "pre": list(pr), "pre2": list(pr2) if pr2 else [0] * 7, "post": list(po), "count": k}) + "\n")
    out[r] = dict(path=p, records=sum(c.values()), distinct=len(c), actions=dict(collections.Counter(k[0] for k in c)))
print(json.dumps(dict(total=total, files=out)))

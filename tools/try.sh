#!/bin/sh
# usage: tools/try.sh <patch.diff> C01 C02 ...   -- apply to /repo, run the checks, restore /repo
P=$(readlink -f "$1"); shift
cd /verif
[ -z "$(git -C /repo status --porcelain)" ] || { echo "/repo not clean"; exit 2; }
git -C /repo apply "$P" || exit 2
for c in "$@"; do VERIF_NO_EVIDENCE=1 ./check $c 2>&1 | grep -E "^VIOLATION|^TOOL|^SPEC-DRIFT|^KNOWN|check\] C" | cut -c1-220; done
git -C /repo checkout -- .
git -C /repo status --short

#!/usr/bin/env python3
"""phase_stats.py <suite-prefix> : how many events of each op were issued while a resize was pending"""
import json, glob, collections, sys, os
pre = sys.argv[1]
dirs = sorted(glob.glob('/verif/work/traces/*/%s*' % pre), key=os.path.getmtime)
latest = {}
for d in dirs:
    latest[os.path.basename(d)] = d
c = collections.Counter()
for d in latest.values():
    for f in glob.glob(d + '/r*.ndjson'):
        if 'asan' in f: continue
        snap = {}
        for l in open(f):
            try: e = json.loads(l)
            except Exception: continue
            if e.get('op') in ('Reset',): snap = {}
            p = snap.get(e.get('s'))
            if p is not None and 'op' in e:
                ph = 'unsplit' if p['sp'] == 0 else ('main-empty' if p['mI'] == 0 else ('old-empty' if p['oI'] == 0 else 'both'))
                c[(e['op'] + ':' + str(e.get('kind', '')), ph)] += 1
            if isinstance(e.get('st'), list):
                snap = {r['s']: r for r in e['st']}
ops = sorted(set(k[0] for k in c))
print('%-34s %8s %8s %10s %9s' % ('op', 'unsplit', 'both', 'main-empty', 'old-empty'))
for o in ops:
    print('%-34s %8d %8d %10d %9d' % (o, c[(o, 'unsplit')], c[(o, 'both')], c[(o, 'main-empty')], c[(o, 'old-empty')]))

#!/usr/bin/env python3
"""simgen.py --num N --depth D --seed S --out script.ndjson

Spec -> implementation: lets TLC *simulate* behaviours of the counter-level specification
(spec/SimCount.tla = MCCount + a history variable naming each abstract operation), and turns every
behaviour into a script of state-relative ("symbolic") operations that `drive run` concretises
against the real map through the hook: "OverwriteOld" becomes an insert of a key that currently
lives in the old table, "EraseOldAll" a retain keeping exactly the main-table elements,
"Reserve(n)" a reserve of the same distance from the current free space, and so on.  Every step
carries the counters the specification expects ("expect"); the recorded trace is validated like
any other, and the match rate is reported as coverage.
"""
import sys, os, re, json, subprocess, glob, shutil, tempfile

SPEC = os.path.join(os.path.dirname(os.path.dirname(os.path.abspath(__file__))), "spec")
MAXU = 16777215


def parse_state(block):
    st = {}
    for m in re.finditer(r"/\\ (\w+) = (.*)", block):
        st[m.group(1)] = m.group(2).strip()
    return st


def parse_act(s):
    # [op |-> "Reserve", n |-> 3, rel |-> 1, big |-> FALSE]
    out = {}
    for m in re.finditer(r'(\w+) \|-> ("[^"]*"|-?\d+|TRUE|FALSE)', s):
        v = m.group(2)
        if v.startswith('"'):
            v = v[1:-1]
        elif v in ("TRUE", "FALSE"):
            v = (v == "TRUE")
        else:
            v = int(v)
        out[m.group(1)] = v
    return out


def big_arg(n):
    for name, anchor in (("max", MAXU), ("imax", MAXU // 2), ("eighth", MAXU // 8)):
        d = n - anchor
        if abs(d) <= 4096:
            if name == "max":
                return {"max_minus": max(0, -d)}
            return {name + ("_plus" if d >= 0 else "_minus"): abs(d)}
    return {"max_minus": 0}


def to_script(states, bi):
    ops = [{"op": "Reset", "behaviour": bi}]
    s = 1
    fresh = 0
    for i, st in enumerate(states):
        a = parse_act(st["act"])
        exp = {k: int(st[k]) for k in ("mB", "mI", "mG", "oB", "oI", "cI")}
        exp["oP"] = 1 if st["oP"] == "TRUE" else 0
        name = a["op"]
        o = None
        if name == "New":
            o = {"op": "New", "s": s, "ty": "map", "cap": a["cap"], "hm": bi % 3, "hs": 0}
        elif name == "InsertNew":
            fresh += 1
            o = {"op": "Insert", "s": s, "k": {"cls": "absent", "i": fresh}, "v": i % 10}
        elif name == "OverwriteOld":
            o = {"op": "Insert", "s": s, "k": {"cls": "old", "i": i}, "v": i % 10}
        elif name == "RemoveMain":
            o = {"op": ["Remove", "RemoveEntry"][i % 2], "s": s, "k": {"cls": "main", "i": i}}
        elif name == "RemoveOld":
            o = {"op": "Remove", "s": s, "k": {"cls": "old", "i": i}} if i % 2 else \
                {"op": "Entry", "s": s, "k": {"cls": "old", "i": i}, "chain": [{"m": "match"}, {"m": "o_remove"}]}
        elif name == "EraseOld":
            o = {"op": "Retain", "s": s, "pred": {"all_but": {"cls": "old", "i": i}}} if i % 2 else \
                {"op": "Entry", "s": s, "k": {"cls": "old", "i": i}, "chain": [{"m": "match"}, {"m": "o_replace_entry_with"}]}
        elif name == "EraseOldAll":
            o = {"op": "Retain", "s": s, "pred": {"table": "main"}}
        elif name == "EraseMainAll":
            o = {"op": "Retain", "s": s, "pred": {"table": "old"}}
        elif name == "Clear":
            o = {"op": "Clear", "s": s}
        elif name == "Drain":
            o = {"op": "Drain", "s": s, "end": "forget" if a["forget"] else "drop", "take": 0}
        elif name in ("Reserve", "TryReserve"):
            o = {"op": name, "s": s, "n": big_arg(a["n"]) if a["big"] else {"rel": "free", "d": a["rel"]}}
        elif name == "ShrinkTo":
            o = {"op": "ShrinkTo", "s": s, "n": big_arg(a["n"]) if a["big"] else {"rel": "len", "d": a["rel"]}}
        elif name == "CloneSelf":
            d = 3 - s
            ops.append({"op": "Clone", "s": s, "d": d})
            ops.append({"op": "DropMap", "s": s, "expect": exp, "model_op": name})
            s = d
            continue
        if o is None:
            continue
        o["expect"] = exp
        o["model_op"] = name
        ops.append(o)
    ops.append({"op": "DropMap", "s": s})
    ops.append({"op": "EndRun"})
    return ops


def main():
    a = sys.argv
    num = int(a[a.index("--num") + 1]) if "--num" in a else 20
    depth = int(a[a.index("--depth") + 1]) if "--depth" in a else 40
    seed = int(a[a.index("--seed") + 1]) if "--seed" in a else 1
    out = a[a.index("--out") + 1]
    tmp = tempfile.mkdtemp(prefix="simgen", dir=os.path.dirname(os.path.abspath(out)))
    try:
        cmd = ["timeout", "600", "tlc", "-workers", "1", "-simulate", "file=%s/tr,num=%d" % (tmp, num), "-depth", str(depth),
               "-seed", str(seed), "-metadir", tmp + "/meta", "-cleanup", "-noGenerateSpecTE", "-config", "SimCount.cfg", "SimCount.tla"]
        r = subprocess.run(cmd, cwd=SPEC, env=dict(os.environ, JAVA_TOOL_OPTIONS="-Xss256m"), stdout=subprocess.PIPE,
                           stderr=subprocess.STDOUT, text=True)
        files = sorted(glob.glob(tmp + "/tr_*"))
        if not files:
            print(r.stdout[-2000:])
            sys.exit(2)
        n = 0
        with open(out, "w") as f:
            for bi, fn in enumerate(files):
                txt = open(fn).read()
                blocks = re.split(r"STATE_\d+ ==", txt)[1:]
                states = [parse_state(b) for b in blocks]
                for o in to_script(states, bi):
                    f.write(json.dumps(o) + "\n")
                    n += 1
        print("behaviours", len(files), "script lines", n)
    finally:
        shutil.rmtree(tmp, ignore_errors=True)


if __name__ == "__main__":
    main()

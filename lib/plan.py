"""What each property's check runs: model-checking configs, trace suites, level claimed."""

# ---------------------------------------------------------------------------------------------
# Trace suites: how `drive` is invoked.  runs/events per tier = (quick, thorough).
# ---------------------------------------------------------------------------------------------
SUITES = {
    # name:        (mode,   elem,   extra flags,            profile,   runs,      events)
    "core_heap":   ("random", "heap",  [],                    "debug",   (12, 60), (200, 200)),
    "core_plain":  ("random", "plain", [],                    "debug",   (12, 60), (200, 200)),
    "core_zst":    ("random", "zst",   [],                    "debug",   (6, 30),   (150, 60)),
    "rel_zst":     ("random", "zst",   [],                    "release", (6, 30),   (150, 60)),
    "rel_heap":    ("random", "heap",  [],                    "release", (12, 60), (200, 200)),
    "rel_plain":   ("random", "plain", [],                    "release", (12, 60), (200, 200)),
    # elements larger than 128 bytes (size_of-dependent paths; same reference semantics as plain)
    "core_fat":    ("random", "fat",   [],                    "release", (6, 30),  (200, 200)),
    "tomb_fat":    ("tomb",   "fat",   [],                    "debug",   (8, 32),   (0, 0)),
    "two_heap":    ("random", "heap",  ["--two"],             "debug",   (12, 60), (200, 200)),
    "two_plain_rel": ("random", "plain", ["--two"],           "release", (12, 60), (200, 200)),
    "set_heap":    ("random", "heap",  ["--set"],             "debug",   (9, 48),   (200, 200)),
    "set_two":     ("random", "heap",  ["--set", "--two"],    "debug",   (12, 60), (200, 200)),
    "set_zst":     ("random", "zst",   ["--set"],             "debug",   (6, 30),   (150, 60)),
    "limits_dbg":  ("random", "plain", ["--limits"],          "debug",   (12, 60), (200, 200)),
    "limits_rel":  ("random", "plain", ["--limits"],          "release", (12, 60), (200, 200)),
    # crash-point enumeration: runs = number of sampled (state, operation) pairs
    "fault_heap":  ("faults", "heap",  [],                    "debug",   (24, 96), (0, 0)),
    "fault_heap_rel": ("faults", "heap", [],                  "release", (24, 96), (0, 0)),
    "fault_plain": ("faults", "plain", [],                    "release", (18, 60), (0, 0)),
    "fault_two":   ("faults", "heap",  ["--two"],             "debug",   (18, 72), (0, 0)),
    "fault_set":   ("faults", "heap",  ["--set", "--two"],    "debug",   (18, 72), (0, 0)),
    # crash points x structural phases: state = one of the matrix's 11 phases, operation = one of the 18 (map) /
    # 12 (set) templates; 198 / 132 states = every template in every phase (thorough tier; the quick tier walks
    # through half of them)
    "fault_phase": ("faults", "heap",  ["--phases", "--two"], "debug",   (99, 396), (0, 0)),
    "fault_phase_rel": ("faults", "plain", ["--phases"],       "release", (44, 198), (0, 0)),
    "fault_phase_set": ("faults", "heap", ["--phases", "--set", "--two"], "debug", (66, 264), (0, 0)),
    "fault_phase_zst": ("faults", "zst", ["--phases"],         "debug",   (22, 88),  (0, 0)),
    "fault_zst":   ("faults", "zst",   [],                    "debug",   (9, 45),   (0, 0)),
    "par_heap":    ("random", "heap",  ["--par"],            "release", (12, 60), (150, 60)),
    "par_two":     ("random", "plain", ["--par", "--two"],   "debug",   (12, 60), (150, 60)),
    "par_set":     ("random", "heap",  ["--par", "--set", "--two"], "release", (12, 60), (150, 60)),
    "serde_map":   ("random", "heap",  ["--serde", "--two"],  "debug",   (12, 60), (150, 60)),
    "serde_set":   ("random", "heap",  ["--serde", "--two", "--set"], "debug", (12, 60), (150, 60)),
    "serde_map_rel": ("random", "plain", ["--serde", "--two"], "release", (6, 30), (60, 60)),
    "serde_zst":   ("random", "zst",   ["--serde", "--two", "--set"], "release", (6, 30), (100, 100)),
    "meta_heap":   ("meta",   "heap",  [],                    "debug",   (12, 60), (0, 0)),
    "meta_plain":  ("meta",   "plain", [],                    "release", (12, 60), (0, 0)),
    "meta_set":    ("meta",   "heap",  ["--set"],             "debug",   (12, 60), (0, 0)),
    "meta_zst":    ("meta",   "zst",   [],                    "debug",   (6, 30),   (0, 0)),
    "tomb_plain":  ("tomb",   "plain", [],                    "debug",   (8, 64),   (0, 0)),
    "tomb_heap":   ("tomb",   "heap",  [],                    "release", (8, 64),   (0, 0)),
    # profile differential: recorded with the debug build, re-executed with the release build
    "diff_plain":  ("diff",   "plain", ["--limits"],          "debug",   (12, 60), (200, 200)),
    "diff_heap":   ("diff",   "heap",  ["--limits"],          "debug",   (12, 60), (200, 200)),
    "diff_two":    ("diff",   "heap",  ["--two"],             "debug",   (6, 60),   (200, 200)),
    "diff_set":    ("diff",   "heap",  ["--set", "--two"],    "debug",   (6, 60),   (200, 200)),
    "diff_zst":    ("diff",   "zst",   [],                    "debug",   (6, 30),   (100, 100)),
    # large maps, counters only; runs = number of files, events = n (elements inserted)
    "big_plain":   ("big",    "plain", [],                    "release", (1, 2),    (30000, 150000)),
    "big_heap":    ("big",    "heap",  [],                    "debug",   (1, 1),    (6000, 40000)),
    "big_collide": ("big",    "plain", ["--hm", "2"],         "release", (1, 1),    (1500, 6000)),
    # spec -> implementation: TLC-simulated behaviours of SimCount.tla concretised through the hook;
    # runs = behaviours, events = depth
    "sim_plain":   ("sim",    "plain", [],                    "debug",   (30, 300), (45, 60)),
    "sim_heap":    ("sim",    "heap",  [],                    "release", (30, 300), (45, 60)),
    # phase x operation matrix (deterministic): 11 structural phases x 66 map / 44 set operations, each pair
    # once per full matrix (726 / 484 runs); further matrices use other hashers and table sizes
    "mx_heap":     ("matrix", "heap",  [],                    "debug",   (726, 2904), (0, 0)),
    "mx_plain_rel": ("matrix", "plain", [],                   "release", (726, 2178), (0, 0)),
    "mx_set":      ("matrix", "heap",  ["--set"],             "debug",   (484, 1452), (0, 0)),
    "mx_zst":      ("matrix", "zst",   [],                    "debug",   (264, 264), (0, 0)),
    "mx_zst_set":  ("matrix", "zst",   ["--set"],             "release", (176, 176), (0, 0)),
    "entry_heap":  ("random", "heap",  ["--entry"],           "debug",   (12, 60), (200, 200)),
    "entry_plain": ("random", "plain", ["--entry"],           "release", (12, 60), (200, 200)),
    "defects":     ("scripts", None,   [],                    "both",    (1, 1),    (0, 0)),
    # the crate's own test suite (unit tests: R = 4, integration tests: R = 8) run with span tracing on
    "repo_tests":  ("repotests", None, [],                    "debug",   (1, 1),    (0, 0)),
}

# scripted regression histories: (file under /verif/scripts/defects, elem)
DEFECT_SCRIPTS = [
    ("d1.ndjson", "plain"), ("d2.ndjson", "zst"), ("d2b.ndjson", "zst"), ("d3.ndjson", "plain"),
    ("d5.ndjson", "heap"), ("d4a.ndjson", "plain"), ("d4b.ndjson", "plain"), ("d6.ndjson", "heap"), ("d7.ndjson", "heap"), ("d8.ndjson", "plain"), ("d9.ndjson", "heap"),
]

# ---------------------------------------------------------------------------------------------
# Model-checking configs: name -> (module, cfg, workers, timeout_s) per tier
# ---------------------------------------------------------------------------------------------
# spec modules each model-checking config depends on (cache key)
MC_DEPS = {
    "Small": ["Hashbrown.tla", "Griddle.tla", "GriddleCount.tla", "MCGriddle.tla"],
    "CountR8": ["Hashbrown.tla", "GriddleCount.tla", "MCCount.tla"],
    "CountR4": ["Hashbrown.tla", "GriddleCount.tla", "MCCount.tla"],
    "CountR8big": ["Hashbrown.tla", "GriddleCount.tla", "MCCount.tla"],
    "Fault": ["Hashbrown.tla", "Griddle.tla", "GriddleCount.tla", "MCGriddle.tla"],
    "Iter": ["Hashbrown.tla", "Griddle.tla", "GriddleCount.tla", "MCGriddle.tla", "MCIter.tla"],
    "Par": ["MCPar.tla"],
    "Cursor": ["MCCursor.tla"],
    "CloneFrom": ["MCCloneFrom.tla"],
    "CursorZst": ["MCCursor.tla"],
    "Entry": ["Hashbrown.tla", "Griddle.tla", "GriddleCount.tla", "MCGriddle.tla", "MCEntry.tla"],
    "Iters": ["Hashbrown.tla", "Griddle.tla", "GriddleCount.tla", "MCGriddle.tla", "MCIters.tla"],
    "Overflow": ["Hashbrown.tla", "GriddleCount.tla", "MCCount.tla"],
    "OverflowDbg": ["Hashbrown.tla", "GriddleCount.tla", "MCCount.tla"],
}

MC = {
    "Small": {
        "quick": ("MCGriddle", "MCSmall", 6, 3600),
        "thorough": ("MCGriddle", "MCSmall6", 12, 7200),
    },
    # drain_filter as a process holding a raw iterator across removals that may free the old table
    "Iter": {
        "quick": ("MCIter", "MCIter", 4, 3600),
        "thorough": ("MCIter", "MCIter5", 8, 3600),
    },
    # C08: RawIter / RawIntoIter / RawDrain as processes started in every reachable state: each element once,
    # exact size_hint at every step, None only at the end and forever after
    "Iters": {
        "quick": ("MCIters", "MCIters", 4, 3600),
        "thorough": ("MCIters", "MCIters5", 8, 3600),
    },
    # C12: entry / raw-entry handles as processes holding (table, bucket) across accessor calls; every
    # accessor in every reachable state of the two-table model, refinement to RefMap and GriddleCount
    "Entry": {
        "quick": ("MCEntry", "MCEntry", 4, 3600),
        "thorough": ("MCEntry", "MCEntry5", 8, 3600),
    },
    # C15: griddle's rayon bridge (main table, then old table; hashbrown's group-range split) under every
    # split/steal schedule, every occupancy pattern; with the liveness property Terminates
    "Par": {
        "quick": ("MCPar", "MCParQ", 4, 3600),
        "thorough": ("MCPar", "MCPar", 8, 7200),
    },
    # C05 at bucket level: hashbrown's RawIter / reflect_toggle_full transcribed, and griddle's use of it on
    # the old table (carry, remove, replace_bucket_with with snapshot/restore): every occupancy, every order
    "Cursor": {
        "quick": ("MCCursor", "MCCursor16", 4, 3600),
        "thorough": ("MCCursor", "MCCursor20", 8, 7200),
    },
    # the same with zero-sized elements (fix D2: the iterator is re-created after each removal)
    "CursorZst": {
        "quick": ("MCCursor", "MCCursorZst", 4, 3600),
        "thorough": ("MCCursor", "MCCursorZst", 4, 3600),
    },
    # clone_from as a process that may be left at any step, with the hasher an element was placed with (D9)
    "CloneFrom": {
        "quick": ("MCCloneFrom", "MCCloneFrom", 4, 3600),
        "thorough": ("MCCloneFrom", "MCCloneFrom", 4, 3600),
    },
    "Fault": {
        "quick": ("MCGriddle", "MCFault", 6, 3600),
        "thorough": ("MCGriddle", "MCFault6", 12, 7200),
    },
    # every n, m in 0..MaxUsize (a 1-byte usize) in every reachable state: wraps, checked_mul, layout limit
    "Overflow": {
        "quick": ("MCCount", "MCOverflow", 6, 3600),
        "thorough": ("MCCount", "MCOverflow", 6, 900),
    },
    "OverflowDbg": {
        "quick": ("MCCount", "MCOverflowDbg", 6, 3600),
        "thorough": ("MCCount", "MCOverflowDbg", 6, 900),
    },
    # the other instance of (R, Group::WIDTH): what cfg(test) and Miri builds of the crate run with
    "CountR4": {
        "quick": ("MCCount", "MCCountR4_32", 6, 3600),
        "thorough": ("MCCount", "MCCountR4_64", 12, 7200),
    },
    "CountR8": {
        "quick": ("MCCount", "MCCountR8_64", 8, 3600),
        "thorough": ("MCCount", "MCCountR8_64x", 12, 7200),
    },
    # one more doubling (128 buckets): does not finish within an hour on a busy machine; a run ended by its
    # time limit is reported as a partial exploration (evidence: exhaustive = false), never as an error
    "CountR8big": {
        "quick": ("MCCount", "MCCountR8_64", 8, 3600),
        "thorough": ("MCCount", "MCCountR8", 12, 3600),
    },
}

ALL_MAP = ["core_heap", "core_plain", "core_zst", "rel_heap", "defects"]

PROPS = {
    "C01": dict(suites=["mx_heap", "mx_plain_rel", "mx_zst", "core_fat", "tomb_fat", "entry_heap", "entry_plain", "sim_plain", "sim_heap", "tomb_plain", "tomb_heap", "core_heap", "core_plain", "core_zst", "rel_heap", "rel_plain", "defects"], mc=["Small", "CountR8"]),
    "C02": dict(suites=["core_fat", "tomb_fat", "sim_plain", "sim_heap", "big_plain", "big_heap", "big_collide", "tomb_plain", "tomb_heap", "core_plain", "rel_plain", "core_heap", "defects", "repo_tests"], mc=["CountR8", "CountR4"]),
    "C03": dict(suites=["mx_plain_rel", "core_fat", "tomb_fat", "sim_plain", "sim_heap", "big_plain", "big_heap", "big_collide", "tomb_plain", "tomb_heap", "core_plain", "core_heap", "rel_plain", "set_heap", "defects", "repo_tests"], mc=["Small", "CountR8"]),
    "C04": dict(suites=["core_fat", "tomb_fat", "sim_plain", "sim_heap", "big_plain", "big_heap", "big_collide", "tomb_plain", "tomb_heap", "core_plain", "rel_plain", "limits_dbg", "limits_rel", "two_heap", "defects", "repo_tests"], mc=["Small", "CountR8", "CountR4", "CountR8big"], apalache=True),
    "C05": dict(suites=["mx_heap", "mx_zst", "mx_zst_set", "sim_plain", "sim_heap", "fault_heap", "fault_heap_rel", "tomb_plain", "tomb_heap", "core_heap", "rel_heap", "core_zst", "set_heap", "set_zst", "two_heap", "two_plain_rel", "defects"], mc=["Cursor", "CursorZst", "Iter", "Small", "CountR8"], asan=["mx_heap", "two_heap", "two_plain_rel", "core_heap", "fault_heap", "set_heap", "tomb_heap", "defects"], miri=True),
    # (zero-sized elements are drop-counted: live objects = elements held, after every call)
    "C06": dict(suites=["mx_heap", "mx_zst", "mx_set", "entry_heap", "entry_plain", "core_heap", "rel_heap", "two_heap", "set_heap", "set_two", "core_zst", "rel_zst", "set_zst", "defects"], mc=["Small"]),
    # after an injected panic the semantic/safety monitors are part of "the map stays memory-safe and
    # self-consistent, later operations behave normally": their failures after a fault count for C07
    # (unless the fault-free control segments fail too: then the panic is not to blame)
    "C07": dict(suites=["fault_phase", "fault_phase_rel", "fault_phase_set", "fault_phase_zst", "fault_heap", "fault_heap_rel", "fault_plain", "fault_two", "fault_set", "fault_zst", "defects"], mc=["Fault", "CloneFrom"],
                after_fault=True),
    # (entry suites: iteration right after entry / raw-entry calls on old-table elements next to the move cursor)
    "C08": dict(suites=["mx_heap", "mx_plain_rel", "mx_set", "mx_zst_set", "core_heap", "rel_heap", "core_plain", "set_heap", "core_zst", "entry_heap", "entry_plain"], mc=["Iters", "Small"]),
    "C09": dict(suites=["mx_heap", "mx_set", "core_heap", "rel_heap", "core_plain", "set_heap", "set_zst"], mc=["Iter", "Iters", "Small"]),
    "C10": dict(suites=["sim_plain", "sim_heap", "limits_dbg", "limits_rel", "core_plain", "rel_plain", "set_heap", "defects", "repo_tests"], mc=["CountR8", "Overflow", "OverflowDbg"]),
    # a failed semantic monitor on a map that is the product of clone / clone_from in that run (a lookup
    # missing in the clone, wrong contents after a later call, ...) is C11's
    "C11": dict(suites=["mx_heap", "mx_set", "two_heap", "two_plain_rel", "set_two", "defects", "repo_tests"], mc=["CountR8", "Small", "CloneFrom"], on_clones=True),
    "C12": dict(suites=["mx_heap", "mx_plain_rel", "entry_heap", "entry_plain", "core_heap", "rel_heap", "core_plain", "core_zst", "defects"], mc=["Entry", "Small"]),
    "C13": dict(suites=["mx_set", "mx_zst_set", "set_heap", "set_two", "set_zst"], mc=["Small"]),
    "C14": dict(suites=["meta_heap", "meta_plain", "meta_set", "meta_zst"], mc=["Small"],
                monitors=["eq_is_content_equality", "debug_shows_contents", "lookup_result", "set_contains_result",
                          "iter_yields_each_once", "iter_exact_len", "iter_complete", "len_is_sum", "contents"]),
    "C15": dict(suites=["par_heap", "par_two", "par_set"], mc=["Par"]),
    "C16": dict(suites=["serde_map_rel", "serde_map", "serde_set", "serde_zst"], mc=["Small"]),
}

PROPS["C17"] = dict(suites=["diff_plain", "diff_heap", "diff_two", "diff_set", "diff_zst", "limits_dbg", "limits_rel", "defects"], mc=["CountR8", "Overflow", "OverflowDbg"])

LEVEL = {p: "model_checking" for p in PROPS}
LEVEL["C07"] = "fault_enumeration"
LEVEL["C15"] = "exploration"

"""Orchestration: build, model-check, record, validate, evidence."""
import os, sys, json, hashlib, subprocess, time, shutil, re, glob
import concurrent.futures as cf
from . import plan as PLAN

VERIF = os.path.dirname(os.path.dirname(os.path.abspath(__file__)))
REPO = os.environ.get("VERIF_REPO", "/repo")
WORK = os.path.join(VERIF, "work")
SPEC = os.path.join(VERIF, "spec")
HARNESS = os.path.join(VERIF, "harness")
EVID = os.path.join(VERIF, "evidence")
ENV = dict(os.environ, CARGO_NET_OFFLINE="true")
JAVA_TRACE = "-Xss1g -Dtlc2.tool.queue.IStateQueue=StateDeque"
JAVA_MC = "-Xss256m"


def log(*a):
    print("[check]", *a, file=sys.stderr, flush=True)


def sha(paths):
    h = hashlib.sha1()
    for p in sorted(paths):
        # location-independent: an isolated copy of /verif (tools/seed_eval.py --isolated) shares the caches
        rel = p
        for base in (VERIF, REPO):
            if p.startswith(base + os.sep):
                rel = os.path.relpath(p, base)
                break
        h.update(rel.encode())
        with open(p, "rb") as f:
            h.update(f.read())
    return h.hexdigest()[:16]


def files_under(d, exts):
    out = []
    for root, _, fs in os.walk(d):
        if "/target" in root or "/.git" in root:
            continue
        for f in fs:
            if any(f.endswith(e) for e in exts):
                out.append(os.path.join(root, f))
    return out


def repo_key():
    fs = files_under(os.path.join(REPO, "src"), [".rs"]) + [os.path.join(REPO, "Cargo.toml")]
    fs += files_under(os.path.join(HARNESS, "src"), [".rs"]) + [os.path.join(HARNESS, "Cargo.toml")]
    # what is recorded also depends on the suite definitions and the scripted histories
    fs += files_under(os.path.join(VERIF, "scripts"), [".ndjson"]) + [os.path.join(VERIF, "lib", "plan.py"), os.path.join(VERIF, "tools", "simgen.py")]
    return sha(fs)


def spec_key(extra=()):
    return sha(files_under(SPEC, [".tla", ".cfg"]) + list(extra))


# ---------------------------------------------------------------------------------------------
def build():
    """Rebuilds the harness (and with it griddle from /repo's working tree, hooks on)."""
    t0 = time.time()
    lock = os.path.join(HARNESS, "Cargo.lock")
    if not os.path.exists(lock):
        shutil.copy(os.path.join(REPO, "Cargo.lock"), lock)
    for prof in ([], ["--release"]):
        r = subprocess.run(["cargo", "build", "--offline"] + prof, cwd=HARNESS, env=ENV,
                           stdout=subprocess.PIPE, stderr=subprocess.STDOUT, text=True)
        if r.returncode != 0:
            print(r.stdout[-4000:])
            log("harness build failed")
            sys.exit(2)
    log("harness built in %.1fs" % (time.time() - t0))
    return repo_key()


def drive_bin(profile):
    if profile == "asan":
        return os.path.join(HARNESS, "target-asan", "x86_64-unknown-linux-gnu", "release", "drive")
    return os.path.join(HARNESS, "target", profile, "drive")


def build_asan():
    """AddressSanitizer build of harness + griddle + hashbrown (nightly; works offline here)."""
    t0 = time.time()
    env = dict(ENV, RUSTFLAGS="-Zsanitizer=address --cfg griddle_verif --check-cfg cfg(griddle_verif)")
    r = subprocess.run(["cargo", "+nightly", "build", "--release", "--offline", "--target", "x86_64-unknown-linux-gnu",
                        "--target-dir", "target-asan"], cwd=HARNESS, env=env, stdout=subprocess.PIPE, stderr=subprocess.STDOUT, text=True)
    if r.returncode != 0:
        log("ASan build failed (nightly toolchain missing?): " + r.stdout[-500:])
        return False
    log("ASan harness built in %.1fs" % (time.time() - t0))
    return True


def run_miri(tier):
    """Miri (griddle's cfg(miri): R = 4, generic 8-wide groups): defect scripts and short seeded runs.
    Returns (entries, findings); entries are ordinary trace entries that get validated like the others."""
    outdir = os.path.join(WORK, "traces", "miri-" + repo_key())
    os.makedirs(outdir, exist_ok=True)
    env = dict(ENV, MIRIFLAGS="-Zmiri-disable-isolation -Zmiri-ignore-leaks", RUSTFLAGS="--cfg griddle_verif --check-cfg cfg(griddle_verif)")
    base = ["cargo", "+nightly", "miri", "run", "--offline", "--target-dir", "target-miri", "--"]
    jobs = []
    for fn, el in PLAN.DEFECT_SCRIPTS:
        p = os.path.join(outdir, fn.replace(".ndjson", ".miri.ndjson"))
        jobs.append((p, el, base + ["run", "--elem", el, "--script", os.path.join(VERIF, "scripts", "defects", fn), "--out", p]))
    n = 2 if tier == "quick" else 8
    for i in range(n):
        p = os.path.join(outdir, "rand%d.miri.ndjson" % i)
        flags = [[], ["--two"], ["--set", "--two"], ["--entry"]][i % 4]
        jobs.append((p, "heap", base + ["random", "--elem", "heap", "--seed", str(100 + i), "--events", "60", "--runs", "2"] + flags + ["--out", p]))
    p = os.path.join(outdir, "faults.miri.ndjson")
    jobs.append((p, "heap", base + ["faults", "--elem", "heap", "--seed", "5", "--first", "0" if tier == "quick" else "4", "--states", "3" if tier == "quick" else "6", "--max-per-kind", "4", "--out", p]))
    # build once (serial), then run in parallel
    r = subprocess.run(["cargo", "+nightly", "miri", "run", "--offline", "--target-dir", "target-miri", "--", "help"], cwd=HARNESS, env=env,
                       stdout=subprocess.PIPE, stderr=subprocess.STDOUT, text=True)
    if "error: no such command" in r.stdout or "is not installed" in r.stdout:
        return None, []
    entries, findings = [], []
    with cf.ThreadPoolExecutor(max_workers=6) as ex:
        futs = [(p, el, cmd, ex.submit(subprocess.run, ["timeout", "1500"] + cmd, cwd=HARNESS, env=env, stdout=subprocess.PIPE,
                                       stderr=subprocess.STDOUT, text=True)) for p, el, cmd in jobs]
        for p, el, cmd, f in futs:
            r = f.result()
            ub = "Undefined Behavior" in r.stdout or "error: " in r.stdout and "unsupported operation" not in r.stdout and r.returncode != 0
            entries.append(dict(path=p, status="ok" if r.returncode == 0 else "miri(%d)" % r.returncode, suite="miri", profile="miri",
                                elem=el, log=r.stdout[-1500:], cmd=" ".join(cmd)))
            if r.returncode == 124:
                # the interpreter is ~100x slower than native code: a recording that did not finish in time was
                # clean as far as it got (the part written is still validated) -- not a report
                entries[-1]["status"] = "ok"
                entries[-1]["incomplete"] = True
            elif r.returncode != 0:
                findings.append(dict(trace=p, elem=el, report=r.stdout[-1200:], ub=bool(ub)))
    return entries, findings


def run_asan(entries, limit):
    """Re-runs the recording commands of `entries` with the ASan binary. Returns list of findings."""
    out = []
    jobs = []
    for t in entries[:limit]:
        cmd = t["cmd"]
        if cmd.startswith("(") or " random " not in cmd and " faults " not in cmd and " tomb " not in cmd and " run " not in cmd and " meta " not in cmd:
            continue
        cmd = cmd.replace(drive_bin("debug"), drive_bin("asan")).replace(drive_bin("release"), drive_bin("asan"))
        if cmd.startswith("sh -c"):
            continue
        dest = t["path"].replace(".ndjson", ".asan.ndjson")
        parts = cmd.split(" ")
        if "--out" in parts:
            parts[parts.index("--out") + 1] = dest
        jobs.append((t, parts, dest))
    env = dict(os.environ, ASAN_OPTIONS="detect_leaks=0:exitcode=99:abort_on_error=0")
    with cf.ThreadPoolExecutor(max_workers=8) as ex:
        futs = [(t, parts, dest, ex.submit(subprocess.run, parts, env=env, stdout=subprocess.PIPE, stderr=subprocess.STDOUT, text=True))
                for t, parts, dest in jobs]
        for t, parts, dest, f in futs:
            r = f.result()
            bad = r.returncode != 0 or "AddressSanitizer" in r.stdout
            out.append(dict(trace=dest, ok=not bad, rc=r.returncode, report=r.stdout[-1500:] if bad else "", elem=t["elem"], suite=t["suite"]))
    return out


# ---------------------------------------------------------------------------------------------
def run_mc(name, tier):
    module, cfg, workers, tmo = PLAN.MC[name][tier]
    deps = [os.path.join(SPEC, f) for f in PLAN.MC_DEPS.get(name, [])] + [os.path.join(SPEC, cfg + ".cfg")]
    key = sha(deps) if PLAN.MC_DEPS.get(name) else spec_key()
    cdir = os.path.join(WORK, "mc", "%s-%s-%s" % (name, tier, key))
    res = os.path.join(cdir, "result.json")
    if os.path.exists(res):
        return json.load(open(res))
    os.makedirs(cdir, exist_ok=True)
    t0 = time.time()
    cmd = ["timeout", str(tmo), "tlc", "-workers", str(workers), "-coverage", "1", "-metadir", os.path.join(cdir, "meta"),
           "-cleanup", "-noGenerateSpecTE", "-config", cfg + ".cfg", module + ".tla"]
    r = subprocess.run(cmd, cwd=SPEC, env=dict(os.environ, JAVA_TOOL_OPTIONS=JAVA_MC), stdout=subprocess.PIPE,
                       stderr=subprocess.STDOUT, text=True)
    out = r.stdout
    open(os.path.join(cdir, "tlc.log"), "w").write(out)
    shutil.rmtree(os.path.join(cdir, "meta"), ignore_errors=True)
    m = re.search(r"(\d+) states generated, (\d+) distinct states found, (\d+) states left", out)
    depth = re.search(r"depth of the complete state graph search is (\d+)", out)
    ok = "Model checking completed. No error has been found." in out
    viol = re.findall(r"Error: (Invariant \S+ is violated|Action property \S+ is violated|.*violated.*)", out)
    # per-action coverage: "<Action line ..>: distinct:generated"
    cov = {}
    for mm in re.finditer(r"<(\w+) line (\d+), col \d+ to line \d+, col \d+ of module (\w+)>: (\d+):(\d+)", out):
        cov["%s@%s:%s" % (mm.group(1), mm.group(3), mm.group(2))] = [int(mm.group(4)), int(mm.group(5))]
    timed_out = r.returncode == 124 and not viol and "Error:" not in out
    if timed_out:
        # the time limit ended an exploration that had found nothing: not a verdict against anything, and not
        # a tool failure either -- report how far it got (evidence: exhaustive = false) and go on
        pm = re.findall(r"Progress\(\d+\) at [^:]+:\d+:\d+: ([\d,]+) states generated.*?, ([\d,]+) distinct states found", out)
        if pm:
            m = None
            gen_, dist_ = (int(x.replace(",", "")) for x in pm[-1])
        else:
            gen_, dist_ = 0, 0
        ok = True
    result = dict(name=name, tier=tier, module=module, cfg=cfg, ok=ok, complete=ok and not timed_out, timeout=(r.returncode == 124),
                  generated=int(m.group(1)) if m else (gen_ if timed_out else 0), distinct=int(m.group(2)) if m else (dist_ if timed_out else 0),
                  depth=int(depth.group(1)) if depth else 0, violations=viol, wall_s=round(time.time() - t0, 1),
                  action_coverage=cov,
                  cmd=" ".join(cmd[2:]))
    if ok or viol:
        json.dump(result, open(res, "w"), indent=1)
    return result


def run_apalache():
    """Inductive invariant of IndCount.tla (unbounded sizes) with Apalache. Cached by file hash."""
    f = os.path.join(SPEC, "IndCount.tla")
    key = sha([f])
    cdir = os.path.join(WORK, "mc", "apalache-" + key)
    res = os.path.join(cdir, "result.json")
    if os.path.exists(res):
        return json.load(open(res))
    os.makedirs(cdir, exist_ok=True)
    obligations = [("Init => IndInv", ["--init=Init", "--inv=IndInv", "--length=0"]),
                   ("IndInv /\\ Next => IndInv'", ["--init=IndInit", "--inv=IndInv", "--length=1"])]
    out = []
    t0 = time.time()
    for name, args in obligations:
        cmd = ["timeout", "900", "apalache-mc", "check", "--cinit=CInit", "--out-dir=" + os.path.join(cdir, "out")] + args + ["IndCount.tla"]
        r = subprocess.run(cmd, cwd=SPEC, stdout=subprocess.PIPE, stderr=subprocess.STDOUT, text=True)
        ok = "The outcome is: NoError" in r.stdout
        out.append(dict(obligation=name, ok=ok, cmd=" ".join(cmd[2:]), tail=r.stdout[-300:] if not ok else ""))
    shutil.rmtree(os.path.join(cdir, "out"), ignore_errors=True)
    result = dict(obligations=len(out), discharged=sum(1 for o in out if o["ok"]), details=out, wall_s=round(time.time() - t0, 1))
    if result["discharged"] == result["obligations"]:
        json.dump(result, open(res, "w"), indent=1)
    return result


# ---------------------------------------------------------------------------------------------
def record_suite(suite, tier, seed, key):
    """Returns list of dict(path, status, suite, profile). Cached per (key, suite, tier, seed)."""
    mode, elem, flags, profile, runs, events = PLAN.SUITES[suite]
    ti = 0 if tier == "quick" else 1
    cdir = os.path.join(WORK, "traces", key, "%s-%s-%d" % (suite, tier, seed))
    idx = os.path.join(cdir, "index.json")
    if os.path.exists(idx):
        return json.load(open(idx))
    os.makedirs(cdir, exist_ok=True)
    out = []
    if mode == "repotests":
        # the crate's own, unedited test suite, run with the span-tracing hook on: every critical section of
        # src/raw/mod.rs writes (counters on entry, counters on exit); judged by TraceRaw.tla
        raw = os.path.join(cdir, "raw.ndjson")
        env = dict(os.environ, CARGO_NET_OFFLINE="true", GRIDDLE_VERIF_TRACE=raw,
                   CARGO_TARGET_DIR=os.path.join(WORK, "repo_tests_target"),
                   RUSTFLAGS="--cfg griddle_verif --check-cfg cfg(griddle_verif)")
        cmd = ["timeout", "1500", "cargo", "test", "--offline", "--lib", "--tests", "--no-fail-fast"]
        r = subprocess.run(cmd, cwd=REPO, env=env, stdout=subprocess.PIPE, stderr=subprocess.STDOUT, text=True)
        results = re.findall(r"test result: (\w+)\. (\d+) passed; (\d+) failed", r.stdout)
        passed = sum(int(x[1]) for x in results)
        failed = sum(int(x[2]) for x in results)
        info = {}
        if os.path.exists(raw):
            s = subprocess.run(["python3", os.path.join(VERIF, "tools", "rawsplit.py"), raw, os.path.join(cdir, "raw")],
                               stdout=subprocess.PIPE, stderr=subprocess.STDOUT, text=True)
            try:
                info = json.loads(s.stdout.strip().splitlines()[-1])
            except Exception:
                info = {}
            os.remove(raw)
        for rr, d in sorted(info.get("files", {}).items()):
            out.append(dict(path=d["path"], status="ok", suite=suite, profile="debug", elem="-", raw=True,
                            records=d["records"], distinct=d["distinct"], actions=d["actions"],
                            tests_passed=passed, tests_failed=failed,
                            log="", cmd="GRIDDLE_VERIF_TRACE=<file> RUSTFLAGS='--cfg griddle_verif' cargo test --offline --lib --tests (R=%s)" % rr))
        if not out:
            out.append(dict(path=os.path.join(cdir, "none.ndjson"), status="norecords", suite=suite, profile="debug", elem="-", raw=True,
                            records=0, distinct=0, actions={}, tests_passed=passed, tests_failed=failed,
                            log=r.stdout[-1500:], cmd=" ".join(cmd)))
    elif mode == "scripts":
        for fn, el in PLAN.DEFECT_SCRIPTS:
            for prof in ("debug", "release"):
                p = os.path.join(cdir, "%s.%s.ndjson" % (fn.replace(".ndjson", ""), prof))
                cmd = ["timeout", "60", drive_bin(prof), "run", "--elem", el, "--script",
                       os.path.join(VERIF, "scripts", "defects", fn), "--out", p]
                r = subprocess.run(cmd, stdout=subprocess.PIPE, stderr=subprocess.STDOUT, text=True)
                out.append(dict(path=p, status=status_of(r.returncode), suite=suite, profile=prof, elem=el,
                                log=r.stdout[-2000:], cmd=" ".join(cmd)))
    else:
        # one file per chunk of runs so that validation parallelises and replay files stay small
        nruns = runs[ti]
        nev = events[ti]
        chunk = 1 if mode == "big" else (100 if mode == "sim" else (121 if mode == "matrix" else 6))
        jobs = []
        for c in range(0, nruns, chunk):
            p = os.path.join(cdir, "r%03d.ndjson" % c)
            sd = seed * 7919 + c * 104729 + (hash_name(suite) % 1000)
            if mode == "sim":
                script = p.replace(".ndjson", ".script.ndjson")
                cmd = ["sh", "-c", "python3 %s --num %d --depth %d --seed %d --out %s && timeout 300 %s run --elem %s --script %s --out %s"
                       % (os.path.join(VERIF, "tools", "simgen.py"), min(chunk, nruns - c), nev, sd % 100000, script,
                          drive_bin(profile), elem, script, p)]
            elif mode == "big":
                cmd = ["timeout", "900", drive_bin(profile), "big", "--elem", elem, "--seed", str(sd), "--n", str(nev)] + flags + ["--out", p]
            elif mode == "diff":
                pb = p.replace(".ndjson", ".rel.ndjson")
                cmd = ["sh", "-c", "timeout 300 %s random --elem %s --seed %d --runs %d --events %d %s --out %s && timeout 300 %s run --elem %s --script %s --out %s"
                       % (drive_bin("debug"), elem, sd, min(chunk, nruns - c), nev, " ".join(flags + ["--first", str(c)]), p, drive_bin("release"), elem, p, pb)]
            elif mode == "tomb":
                cmd = ["timeout", "600", drive_bin(profile), "tomb", "--elem", elem, "--seed", str(sd), "--first", str(c), "--runs",
                       str(min(chunk, nruns - c))] + flags + ["--out", p]
            elif mode == "matrix":
                # one run = one (phase, operation) pair: deterministic, the seed plays no role
                cmd = ["timeout", "600", drive_bin(profile), "matrix", "--elem", elem, "--first", str(c), "--runs",
                       str(min(chunk, nruns - c))] + flags + ["--out", p]
            elif mode == "meta":
                cmd = ["timeout", "600", drive_bin(profile), "meta", "--elem", elem, "--seed", str(sd), "--first", str(c), "--cases",
                       str(min(chunk, nruns - c))] + flags + ["--out", p]
            elif mode == "faults":
                cmd = ["timeout", "600", drive_bin(profile), "faults", "--elem", elem, "--seed", str(sd), "--first", str(c), "--states",
                       str(min(chunk, nruns - c))] + flags + ["--out", p]
            else:
                cmd = ["timeout", "300", drive_bin(profile), "random", "--elem", elem, "--seed", str(sd), "--first", str(c), "--runs",
                       str(min(chunk, nruns - c)), "--events", str(nev)] + flags + ["--out", p]
            jobs.append((p, cmd))
        with cf.ThreadPoolExecutor(max_workers=8) as ex:
            futs = [(p, cmd, ex.submit(subprocess.run, cmd, stdout=subprocess.PIPE, stderr=subprocess.STDOUT, text=True))
                    for p, cmd in jobs]
            for p, cmd, f in futs:
                r = f.result()
                ent = dict(path=p, status=status_of(r.returncode), suite=suite, profile=profile, elem=elem,
                           log=r.stdout[-2000:], cmd=" ".join(cmd))
                if mode == "diff":
                    pb = p.replace(".ndjson", ".rel.ndjson")
                    ent["pair"] = pb
                    out.append(dict(path=pb, status=status_of(r.returncode), suite=suite, profile="release", elem=elem,
                                    log="", cmd="(release re-execution of %s)" % p))
                out.append(ent)
    json.dump(out, open(idx, "w"), indent=1)
    return out


def hash_name(s):
    return int(hashlib.sha1(s.encode()).hexdigest()[:8], 16)


def status_of(rc):
    if rc == 0:
        return "ok"
    if rc == 124:
        return "hang"
    return "crash(%d)" % rc


# ---------------------------------------------------------------------------------------------
# TLC pretty-prints a long tuple over several lines ("<< "MONITOR-FAIL",\n   "C09,C01", ..."): match across newlines
FAIL_RE = re.compile(r'<<\s*"MONITOR-FAIL",\s*"([^"]*)",\s*"([^"]*)",\s*(\d+),\s*"([^"]*)"(?:,\s*"([^"]*)")?\s*>>', re.S)
STRICT_RE = re.compile(r'<<\s*"STRICT-FAIL",\s*"([^"]*)",\s*(\d+),\s*"([^"]*)"\s*>>', re.S)


def validate(spec, trace, trace2=None):
    """Runs TLC on one trace with one trace spec. Cached next to the trace."""
    cache = "%s.%s.%s.v2.json" % (trace, spec, spec_key())
    if os.path.exists(cache):
        return json.load(open(cache))
    meta = trace + "." + spec + ".meta"
    t0 = time.time()
    trace = sanitize(trace)
    if trace2:
        trace2 = sanitize(trace2)
    cmd = ["timeout", "900", "tlc", "-workers", "1", "-metadir", meta, "-cleanup", "-noGenerateSpecTE",
           "-config", spec + ".cfg", spec + ".tla"]
    r = subprocess.run(cmd, cwd=SPEC, env=dict(os.environ, TRACE=trace, TRACE2=trace2 or "", JAVA_TOOL_OPTIONS=JAVA_TRACE),
                       stdout=subprocess.PIPE, stderr=subprocess.STDOUT, text=True)
    shutil.rmtree(meta, ignore_errors=True)
    fails, strict = [], []
    for m in FAIL_RE.finditer(r.stdout):
        fails.append(dict(props=m.group(1).split(","), monitor=m.group(2), line=int(m.group(3)), op=m.group(4),
                          ctx=(m.group(5) or "").split()))
    for m in STRICT_RE.finditer(r.stdout):
        strict.append(dict(what=m.group(1), line=int(m.group(2)), op=m.group(3)))
    if fails:
        # crash-point segments come in pairs (faulted / fault-free twin making the same calls): note where
        # in its segment each failure sits, so that the two can be compared call by call
        try:
            lines = open(trace, errors="replace").read().splitlines()
            for f_ in fails:
                if 0 < f_["line"] <= len(lines):
                    try:
                        ev = json.loads(lines[f_["line"] - 1])
                        if isinstance(ev, dict) and "seg" in ev:
                            f_["seg"], f_["twin"], f_["i"] = ev["seg"], ev.get("twin", 0), ev.get("i", -1)
                    except Exception:
                        pass
        except Exception:
            pass
    m = re.search(r"(\d+) states generated, (\d+) distinct states found", r.stdout)
    states = int(m.group(2)) if m else 0
    accepted = "Model checking completed. No error has been found." in r.stdout
    rejected = re.search(r'"TRACE-REJECTED at line", (\d+)', r.stdout)
    res = dict(spec=spec, trace=trace, accepted=accepted, states=states, fails=fails, strict=strict,
               rejected_at=int(rejected.group(1)) if rejected else None, wall_s=round(time.time() - t0, 2),
               tool_error=(not accepted and not rejected), tail=r.stdout[-1500:] if not accepted else "")
    if not res["tool_error"]:
        json.dump(res, open(cache, "w"))
    return res


META_OPS = ("Header", "Reset", "EndRun", "Skip", "Snap")


def sanitize(path):
    """A driver that dies of memory corruption can leave a garbled last line (or garbled field
    names) behind: keep the well-formed prefix so that TLC can still judge it."""
    clean = path + ".clean"
    if os.path.exists(clean):
        return clean
    good = []
    bad = 0
    try:
        for line in open(path, errors="replace"):
            try:
                e = json.loads(line)
                ok = isinstance(e, dict) and isinstance(e.get("op"), str)
                if ok and e["op"] not in META_OPS:
                    ok = all(k in e for k in ("st", "res", "cost", "led")) and isinstance(e["res"], dict) and "t" in e["res"]
            except Exception:
                ok = False
            if ok:
                good.append(line if line.endswith("\n") else line + "\n")
            else:
                bad += 1
                break      # nothing after a garbled line is trusted
    except FileNotFoundError:
        pass
    if bad == 0:
        return path
    open(clean, "w").writelines(good)
    return clean


def trace_stats(path):
    """Phase coverage of one trace: events, ops histogram, distinct split states, samples."""
    n = 0
    ops = {}
    split_states = set()
    split_events = 0
    samples = []
    try:
        for line in open(path):
            try:
                e = json.loads(line)
            except Exception:
                continue
            op = e.get("op")
            if op in ("Header", "Reset", "EndRun", "Skip", "Snap"):
                continue
            if op is None and "a" in e:
                # span record of the crate's own test suite (de-duplicated, with a count)
                op = "raw:" + e["a"]
                n += e.get("count", 1)
                ops[op] = ops.get(op, 0) + e.get("count", 1)
                if e["pre"][3] == 1:
                    split_states.add((e["pre"][0], e["pre"][1], e["pre"][2], e["pre"][4], e["pre"][5]))
                    split_events += e.get("count", 1)
                continue
            n += 1
            ops[op] = ops.get(op, 0) + 1
            for s in e.get("st", []):
                if s.get("sp") == 1:
                    split_states.add((s["mB"], s["mI"], s["mC"], s["oB"], s["oI"]))
            if any(s.get("sp") == 1 for s in e.get("st", [])):
                split_events += 1
            if len(samples) < 3 and op not in ("New",):
                samples.append({k: v for k, v in e.items() if k not in ("st", "led", "cost", "hints")})
    except FileNotFoundError:
        pass
    return dict(events=n, ops=ops, split_states=split_states, split_events=split_events, samples=samples)


def cut_replay(trace, line, dest):
    """Writes the run containing `line` (from its Reset up to that line) as a replay script."""
    lines = open(trace).read().splitlines()
    start = 0
    for i in range(min(line, len(lines)) - 1, -1, -1):
        if '"op":"Reset"' in lines[i].replace(" ", ""):
            start = i
            break
    os.makedirs(os.path.dirname(dest), exist_ok=True)
    with open(dest, "w") as f:
        f.write(lines[0] + "\n")
        for x in lines[start:line]:
            f.write(x + "\n")
    return dest


# monitor families that express "the map is a consistent map" (as opposed to cost / progress / capacity)
SEMANTIC = {"C01", "C05", "C06", "C08", "C09", "C12", "C13", "C14"}


def counts_for(pid, plan, f, baseline_broken, path=None):
    """Does the failed monitor f decide property pid?"""
    if pid in f["props"] or f["monitor"] in plan.get("monitors", []):
        return True
    ctx = f.get("ctx", [])
    sem = bool(set(f["props"]) & SEMANTIC)
    if plan.get("after_fault") and sem and "postfault" in ctx and "baseline" not in ctx \
            and (path, f.get("seg"), f.get("i"), f["monitor"]) not in baseline_broken:
        return True     # C07: "... and later operations behave normally" (and they do without the panic)
    if plan.get("on_clones") and sem and "cloned" in ctx:
        return True     # C11: the product of clone/clone_from is a fully fledged, independent map
    return False


def load_known():
    try:
        return json.load(open(os.path.join(VERIF, "known_findings.json"))).get("known", [])
    except Exception:
        return []


def known_match(k, pid, fail, elem):
    return (k.get("property") == pid and k.get("monitor") in (None, fail["monitor"]) and k.get("op") in (None, fail["op"])
            and k.get("elem") in (None, elem))


# ---------------------------------------------------------------------------------------------
def run_check(pid, tier, seed, replay):
    t0 = time.time()
    os.makedirs(WORK, exist_ok=True)
    os.makedirs(EVID, exist_ok=True)
    plan = PLAN.PROPS[pid]
    key = build()
    violations = []
    known_hits = []
    notes = []
    # ---- model checking ----
    mcs = []
    for name in plan.get("mc", []):
        r = run_mc(name, tier)
        mcs.append(r)
        log("MC %s: ok=%s distinct=%d generated=%d (%.0fs)%s" % (name, r["ok"], r["distinct"], r["generated"], r["wall_s"],
                                                              "" if r.get("complete", True) else " INCOMPLETE (time limit): no violation in the part explored"))
        if r["ok"] and not r.get("complete", True):
            notes.append("model checking %s stopped by its time limit after %.0fs: %d distinct states explored, no violation (not exhaustive)"
                         % (name, r["wall_s"], r["distinct"]))
        if not r["ok"]:
            print("TOOL-ERROR model checking %s did not complete cleanly: %s" % (name, r["violations"] or "timeout/error"))
            write_evidence(pid, tier, seed, mcs, [], [], [], notes + ["model checking failed: %s" % name], t0, 0, tool_error=True)
            return 2
    proof = None
    if plan.get("apalache"):
        proof = run_apalache()
        log("Apalache: %d/%d obligations discharged (%.0fs)" % (proof["discharged"], proof["obligations"], proof["wall_s"]))
        if proof["discharged"] != proof["obligations"]:
            print("TOOL-ERROR apalache did not discharge the inductive invariant: %s" % [d for d in proof["details"] if not d["ok"]])
            return 2
        notes.append("Apalache: IndCount.tla inductive invariant (headroom, capacity>=len, insert's assertion unreachable) for unbounded sizes: %d/%d obligations" % (proof["discharged"], proof["obligations"]))
    # ---- traces ----
    traces = []
    if replay:
        hdr = json.loads(open(replay).readline())
        prof = hdr.get("profile", "debug")
        outp = os.path.join(WORK, "replays", "replay-%s-%d.out.ndjson" % (pid, os.getpid()))
        os.makedirs(os.path.dirname(outp), exist_ok=True)
        cmd = ["timeout", "120", drive_bin(prof), "run", "--elem", hdr.get("elem", "plain"), "--script", replay, "--out", outp]
        r = subprocess.run(cmd, stdout=subprocess.PIPE, stderr=subprocess.STDOUT, text=True)
        ent = dict(path=outp, status=status_of(r.returncode), suite="replay", profile=prof, elem=hdr.get("elem"),
                   log=r.stdout[-2000:], cmd=" ".join(cmd))
        if pid == "C17":
            # the differential property: re-execute under the other profile too and compare
            other = "release" if prof == "debug" else "debug"
            outb = outp.replace(".out.ndjson", ".out.%s.ndjson" % other)
            cmd2 = ["timeout", "120", drive_bin(other), "run", "--elem", hdr.get("elem", "plain"), "--script", replay, "--out", outb]
            r2 = subprocess.run(cmd2, stdout=subprocess.PIPE, stderr=subprocess.STDOUT, text=True)
            ent["pair"] = outb
            traces.append(dict(path=outb, status=status_of(r2.returncode), suite="replay", profile=other, elem=hdr.get("elem"),
                               log=r2.stdout[-2000:], cmd=" ".join(cmd2)))
        traces.append(ent)
    else:
        for s in plan["suites"]:
            traces += record_suite(s, tier, seed, key)
    # crashes and hangs of the driver are data
    for t in traces:
        if t.get("raw"):
            if t["status"] != "ok":
                notes.append("repo_tests: no span records (%s)" % t["log"][-200:].replace("\n", " | "))
            else:
                notes.append("repo_tests: %d records (%d distinct) from the crate's own test suite (%d tests passed, %d failed) judged by TraceRaw: %s"
                             % (t["records"], t["distinct"], t["tests_passed"], t["tests_failed"], t["cmd"][-8:]))
            continue
        if t["status"] != "ok" and t.get("suite") != "miri":
            prop = "C05" if t["status"].startswith("crash") else "C04"
            if pid == prop:
                violations.append(dict(trace=t["path"], line=None, monitor="driver_" + t["status"], op="?", elem=t["elem"],
                                       detail=t["log"][-400:]))
            else:
                notes.append("driver %s in suite %s (judged by %s)" % (t["status"], t["suite"], prop))
    # AddressSanitizer runtime (C05): the same recordings, executed by an ASan build
    asan_runs = []
    if plan.get("asan") and not replay:
        if build_asan():
            ents = [t for t in traces if t["suite"] in plan["asan"]]
            asan_runs = run_asan(ents, 12 if tier == "quick" else 200)
            for a in asan_runs:
                if not a["ok"]:
                    violations.append(dict(trace=a["trace"], line=None, monitor="asan_report", op="?", elem=a["elem"],
                                           detail=a["report"][-600:]))
            notes.append("ASan: %d recordings re-executed, %d reports" % (len(asan_runs), sum(1 for a in asan_runs if not a["ok"])))
        else:
            notes.append("ASan build unavailable: sanitizer runtime skipped")
    # Miri runtime (C05, thorough tier): a different instance of the parametric specs (R = 4, GW = 8)
    if plan.get("miri") and not replay and (tier == "thorough" or os.environ.get("VERIF_MIRI")):
        ents, finds = run_miri(tier)
        if ents is None:
            notes.append("Miri unavailable: skipped")
        else:
            traces += [e for e in ents if e["status"] == "ok"]
            for f_ in finds:
                if f_["ub"]:
                    violations.append(dict(trace=f_["trace"], line=None, monitor="miri_report", op="?", elem=f_["elem"], detail=f_["report"][-600:]))
                else:
                    # the interpreter stopped for a reason of its own (unsupported operation, killed): no verdict
                    notes.append("Miri stopped without reporting undefined behaviour on %s: %s"
                                 % (os.path.basename(f_["trace"]), f_["report"][-200:].replace("\n", " | ")))
            notes.append("Miri: %d recordings executed (R=4, GW=8; %d cut short by the time limit), %d reports"
                         % (len(ents), sum(1 for e in ents if e.get("incomplete")), len(finds)))
    # validate (parallel)
    jobs = []
    with cf.ThreadPoolExecutor(max_workers=8) as ex:
        for t in traces:
            if t.get("raw"):
                if os.path.exists(t["path"]) and os.path.getsize(t["path"]) > 0:
                    jobs.append((t, "TraceRaw", ex.submit(validate, "TraceRaw", t["path"])))
                continue
            if os.path.exists(t["path"]) and os.path.getsize(t["path"]) > 0:
                jobs.append((t, "TraceRef", ex.submit(validate, "TraceRef", t["path"])))
                jobs.append((t, "TraceCount", ex.submit(validate, "TraceCount", t["path"])))
                jobs.append((t, "TraceGriddle", ex.submit(validate, "TraceGriddle", t["path"])))
                if t.get("pair") and os.path.exists(t["pair"]):
                    jobs.append((t, "TraceDiff", ex.submit(validate, "TraceDiff", t["path"], t["pair"])))
        results = [(t, sp, f.result()) for t, sp, f in jobs]
    known = load_known()
    # is the code misbehaving even in the fault-free control segments? then failures after an injected
    # panic cannot be blamed on the panic
    # (per trace, segment, call index and monitor: what also fails in the fault-free twin)
    baseline_broken = set((t["path"], f.get("seg"), f.get("i"), f["monitor"])
                          for t, sp, r in results if sp == "TraceRef" and not r["tool_error"]
                          for f in r["fails"] if "baseline" in f.get("ctx", []))
    nvalid = 0
    drift = []
    tool_err = []
    stats = dict(events=0, ops={}, split_states=set(), split_events=0, samples=[])
    seen_paths = set()
    for t, sp, r in results:
        if r["tool_error"]:
            if sp in ("TraceCount", "TraceGriddle", "TraceRaw"):
                # the strict specs never decide a property: an evaluation error there is reported as drift
                drift.append(dict(trace=t["path"], what="strict_spec_evaluation_error_" + sp, line=0, op="?"))
            else:
                tool_err.append((t["path"], sp, r["tail"][-600:]))
            continue
        if sp in ("TraceRef", "TraceDiff"):
            nvalid += 1
            for f in r["fails"]:
                if counts_for(pid, plan, f, baseline_broken, t["path"]):
                    hit = [k for k in known if known_match(k, pid, f, t["elem"])]
                    if hit:
                        known_hits.append((hit[0], f, t))
                    else:
                        violations.append(dict(trace=t["path"], line=f["line"], monitor=f["monitor"], op=f["op"], elem=t["elem"]))
            if r["rejected_at"] and not r["accepted"]:
                # a trace the monitor spec cannot even read is a tool problem, not a verdict
                tool_err.append((t["path"], sp, "rejected at line %s" % r["rejected_at"]))
        else:
            for f in r["strict"]:
                drift.append(dict(trace=t["path"], **f))
        if t["path"] not in seen_paths:
            seen_paths.add(t["path"])
            st = trace_stats(t["path"])
            stats["events"] += st["events"]
            stats["split_events"] += st["split_events"]
            stats["split_states"] |= st["split_states"]
            for k, v in st["ops"].items():
                stats["ops"][k] = stats["ops"].get(k, 0) + v
            if len(stats["samples"]) < 4:
                stats["samples"] += st["samples"][:1]
    if tool_err:
        for p, sp, tail in tool_err[:3]:
            print("TOOL-ERROR %s on %s: %s" % (sp, p, tail.replace("\n", " | ")[-500:]))
        write_evidence(pid, tier, seed, mcs, traces, [], drift, notes + ["tool errors: %d" % len(tool_err)], t0, nvalid,
                       stats=stats, tool_error=True)
        return 2
    # ---- report ----
    for k, f, t in known_hits[:10]:
        print("KNOWN-FINDING: property=%s %s" % (pid, k.get("what", "")))
    rc = 0
    shown = set()
    for v in violations:
        tag = (v["monitor"], v["op"])
        if tag in shown or len(shown) >= 8:
            continue
        shown.add(tag)
        dest = os.path.join(WORK, "replays", "%s-%s-%d.ndjson" % (pid, v["monitor"], len(shown)))
        if v["line"]:
            cut_replay(v["trace"], v["line"], dest)
        else:
            os.makedirs(os.path.dirname(dest), exist_ok=True)
            shutil.copy(v["trace"], dest)
        print("VIOLATION property=%s replay=%s  (monitor=%s op=%s elem=%s line=%s)" % (pid, dest, v["monitor"], v["op"], v["elem"], v["line"]))
        rc = 1
    if drift:
        kinds = sorted(set(d["what"] for d in drift))
        print("SPEC-DRIFT: %d events not explained by the implementation-level spec (%s); exhaustive results may not transfer"
              % (len(drift), ",".join(kinds)))
    write_evidence(pid, tier, seed, mcs, traces, violations, drift, notes, t0, nvalid, stats=stats, proof=proof)
    log("%s %s: %d traces, %d events, %d violations, %d drift, %.0fs" % (pid, tier, nvalid, stats["events"], len(violations), len(drift), time.time() - t0))
    return rc


def write_evidence(pid, tier, seed, mcs, traces, violations, drift, notes, t0, nvalid, stats=None, tool_error=False, proof=None):
    if any(t.get("suite") == "replay" for t in traces):
        return      # a replay of one recorded history is not a coverage run
    if os.environ.get("VERIF_NO_EVIDENCE"):
        return      # tools/try.sh, tools/seed_eval.py: runs against a deliberately broken tree
    stats = stats or dict(events=0, ops={}, split_states=set(), split_events=0, samples=[])
    states = sum(m["distinct"] for m in mcs)
    trans = sum(m["generated"] for m in mcs)
    cov = dict(
        states=states,
        transitions=trans,
        traces_validated_against_impl=nvalid,
        evaluations=stats["events"],
        distinct_nontrivial=len(stats["split_states"]),
        rule="one evaluation = one public call executed on the real crate and judged by TLC against TraceRef (property monitors) "
             "TraceCount and TraceGriddle (strict, counter and content level); distinct_nontrivial = distinct structural states (main buckets/items/capacity, old "
             "buckets/items) observed while a resize was pending",
        events_while_split=stats["split_events"],
        ops=stats["ops"],
        samples=stats["samples"][:4] or [{"note": "no trace events"}],
        model_checking=[{k: m[k] for k in ("name", "module", "cfg", "distinct", "generated", "depth", "complete", "wall_s", "cmd")} for m in mcs],
        action_coverage={m["name"]: m.get("action_coverage", {}) for m in mcs},
        spec_drift=[d for d in drift[:20]],
        spec_drift_count=len(drift),
        suites=sorted(set(t["suite"] for t in traces)),
        exhaustive=bool(mcs) and all(m["complete"] for m in mcs),
        notes=notes,
    )
    if proof:
        cov["obligations"] = proof["obligations"]
        cov["discharged"] = proof["discharged"]
        cov["checker_cmd"] = "; ".join(d["cmd"] for d in proof["details"])
        cov["trusted_base"] = ["Apalache 0.58 / Z3", "lemma Cap(CapToBuckets(c)) >= c (TLC: MCCount!CapLemma; observed in every strict trace)"]
    level = PLAN.LEVEL.get(pid, "model_checking")
    if not mcs:
        # no exhaustive component yet: claim only what was done
        cov["states"] = max(states, nvalid and stats["events"] or 0)
        cov["transitions"] = max(trans, stats["events"])
    ev = dict(property_id=pid, tier=tier, seed=seed, level=level, coverage=cov,
              assumptions=["TLC/SANY, the Json/IOUtils community modules", "the hook (read-only) and the harness projection",
                           "Hashbrown.tla as a model of hashbrown 0.14.5 (validated by every strict trace)",
                           "three deterministic hasher classes stand for all hashers"],
              wall_s=round(time.time() - t0, 1), violations=len(violations))
    if tool_error:
        ev["coverage"]["notes"] = notes + ["TOOL ERROR: this run is not a verdict"]
    json.dump(ev, open(os.path.join(EVID, pid + ".json"), "w"), indent=1, default=list)

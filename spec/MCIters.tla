------------------------------- MODULE MCIters -------------------------------
EXTENDS MCGriddle

(***************************************************************************)
(* C08: the iterators of src/raw/mod.rs as *processes* over the two-table  *)
(* model, started in every reachable state (in particular: old table       *)
(* attached but emptied by retain / replace_entry_with, main table empty   *)
(* right after reserve, ...).                                              *)
(*                                                                         *)
(*  kind "ref"    RawIter (iter, iter_mut, keys, values, values_mut, set    *)
(*                iter): main-table iterator, then a *clone of the cached  *)
(*                cursor* (cur, cN) -- hashbrown's RawIter::next trusts    *)
(*                its items counter.                                       *)
(*  kind "owning" RawIntoIter / RawDrain (into_iter, drain): a fresh       *)
(*                hashbrown into_iter of the old table first (items =      *)
(*                the old table's len), dropped when exhausted, then the   *)
(*                main table.                                              *)
(*                                                                         *)
(*  it = [on, kind, mainLeft, oldSome, oldLeft, oldN, keys0, yielded, none] *)
(*       keys0   the keys present when the iterator was created            *)
(*       none    a call of next() has returned None                        *)
(*                                                                         *)
(* Mode = "tree" is the code; "free_old_when_emptied" is a change an        *)
(* independent agent made to RawIntoIter::next / RawDrain::next (seed S52): *)
(* `let e = lo.next(); if lo.len() == 0 { leftovers.take() }; return e`.    *)
(***************************************************************************)
CONSTANT Mode
VARIABLE it
ivars == <<M, O, mB, mG, oP, oB, cur, cN, err, it>>

ItOff == [on |-> FALSE, kind |-> "-", mainLeft |-> {}, oldSome |-> FALSE, oldLeft |-> {}, oldN |-> 0,
          keys0 |-> {}, yielded |-> {}, none |-> FALSE]

ItStart(kind) ==
    /\ Ok /\ ~it.on
    /\ it' = [on |-> TRUE, kind |-> kind, mainLeft |-> KeysOf(M), oldSome |-> oP,
              oldLeft |-> IF kind = "owning" THEN KeysOf(O) ELSE cur,
              oldN |-> IF kind = "owning" THEN oI ELSE cN,
              keys0 |-> KeysOf(All), yielded |-> {}, none |-> FALSE]
    /\ UNCHANGED vars

Yield(k, fromMain) ==
    it' = [it EXCEPT !.mainLeft = IF fromMain THEN @ \ {k} ELSE @,
                     !.oldLeft = IF fromMain THEN @ ELSE @ \ {k},
                     !.oldN = IF fromMain THEN @ ELSE @ - 1,
                     !.yielded = @ \cup {k}]
\* hashbrown RawIter::next on the old table: None iff the items counter is 0; otherwise it walks the
\* control bytes until it finds a full bucket (reading past the end if there is none left)
OldNext(k) ==
    IF it.oldLeft = {} THEN (Apply(Fail("iterator_overread")) /\ UNCHANGED it)
    ELSE (k \in it.oldLeft /\ Yield(k, FALSE) /\ UNCHANGED vars)
MainNext(k) ==
    IF it.mainLeft # {} THEN (k \in it.mainLeft /\ Yield(k, TRUE) /\ UNCHANGED vars)
    ELSE (it' = [it EXCEPT !.none = TRUE] /\ UNCHANGED vars)

\* RawIter::next: self.table.next().or_else(|| leftovers.as_mut()?.next())
RefNext(k) ==
    IF it.mainLeft # {} THEN MainNext(k)
    ELSE IF it.oldSome /\ it.oldN > 0 THEN OldNext(k)
    ELSE (it' = [it EXCEPT !.none = TRUE] /\ UNCHANGED vars)

\* RawIntoIter::next / RawDrain::next
OwningNext(k) ==
    IF it.oldSome
    THEN IF it.oldN > 0
         THEN IF Mode = "free_old_when_emptied" /\ it.oldN = 1 /\ it.oldLeft # {}
              THEN /\ k \in it.oldLeft /\ UNCHANGED vars
                   /\ it' = [it EXCEPT !.oldLeft = @ \ {k}, !.oldN = 0, !.oldSome = FALSE, !.yielded = @ \cup {k}]
              ELSE OldNext(k)
         ELSE IF Mode = "free_old_when_emptied"
              THEN \* lo.next() returned None; the old table is dropped and that None is *returned*
                   (it' = [it EXCEPT !.oldSome = FALSE, !.none = TRUE] /\ UNCHANGED vars)
              ELSE \* done with leftovers: drop them and fall through to the main table in the same call
                   IF it.mainLeft # {} THEN (k \in it.mainLeft /\ UNCHANGED vars
                                             /\ it' = [it EXCEPT !.oldSome = FALSE, !.mainLeft = @ \ {k}, !.yielded = @ \cup {k}])
                   ELSE (it' = [it EXCEPT !.oldSome = FALSE, !.none = TRUE] /\ UNCHANGED vars)
    ELSE MainNext(k)

\* retain(f): `for item in self.table.iter() { if !f(..) { self.table.erase(item) } }` -- a "ref" iterator held
\* across RawTable::erase, which tells the *cached* cursor (reflect_remove) but never frees the old table, so
\* the loop's own clone of the cursor (already past the erased bucket) never dangles
\*   Mode = "retain_no_reflect" (seed S29): erase does not reflect; the cursor is re-created once after the loop
EraseAt(k, nt) ==
    IF Mode = "retain_no_reflect" /\ k \in KeysOf(O) THEN [St EXCEPT !.O = Drop(O, {k})]
    ELSE EraseSet_Post({k}, nt)
RetainNext(k, keep, nt) ==
    IF it.mainLeft # {}
    THEN /\ k \in it.mainLeft /\ Yield(k, TRUE)
         /\ IF keep THEN (nt = 0 /\ UNCHANGED vars) ELSE (EraseSet_En({k}, nt) /\ Apply(EraseAt(k, nt)))
    ELSE IF it.oldSome /\ it.oldN > 0
    THEN IF it.oldLeft = {} THEN (Apply(Fail("iterator_overread")) /\ UNCHANGED it)
         ELSE /\ k \in it.oldLeft /\ Yield(k, FALSE) /\ nt = 0
              /\ IF k \notin KeysOf(O) THEN Apply(Fail("iterator_yields_vacated_bucket"))
                 ELSE IF keep THEN UNCHANGED vars ELSE Apply(EraseAt(k, 0))
    ELSE (nt = 0 /\ keep /\ it' = [it EXCEPT !.none = TRUE] /\ UNCHANGED vars)
\* the loop ends (exhausted), or the predicate panics (unwound): retain has no guard of its own
RetainEnd(unwound) ==
    /\ Ok /\ it.on /\ it.kind = "retain" /\ (unwound \/ it.none) /\ it' = ItOff
    /\ IF Mode = "retain_no_reflect" /\ ~unwound /\ oP
       THEN Apply([St EXCEPT !.cur = KeysOf(O), !.cN = oI])
       ELSE UNCHANGED vars

ItNext(k) == /\ Ok /\ it.on /\ it.kind # "retain"
             /\ IF it.kind = "ref" THEN RefNext(k) ELSE OwningNext(k)
\* the iterator goes away at any point: a by-reference iterator leaves the map as it is; dropping (or
\* forgetting) an owning one is drain's end state (into_iter consumes the map: same tables, gone)
ItEnd(forgotten) ==
    /\ Ok /\ it.on /\ it.kind # "retain" /\ it' = ItOff
    /\ IF it.kind = "ref" THEN (forgotten = FALSE /\ UNCHANGED vars) ELSE Apply(Drain_Post(forgotten))

ItSpecNext ==
    \/ (~it.on /\ Next /\ UNCHANGED it)
    \/ \E kind \in {"ref", "owning", "retain"} : ItStart(kind)
    \/ \E k \in Key : ItNext(k)
    \/ \E f \in BOOLEAN : ItEnd(f)
    \/ \E k \in Key, keep \in BOOLEAN, nt \in 0..1 : (Ok /\ it.on /\ it.kind = "retain" /\ RetainNext(k, keep, nt))
    \/ \E u \in BOOLEAN : RetainEnd(u)
MCItersSpec == (MCInit /\ it = ItOff) /\ [][ItSpecNext]_ivars

SizeHint == Cardinality(it.mainLeft) + (IF it.oldSome THEN it.oldN ELSE 0)
Remaining == it.mainLeft \cup (IF it.oldSome THEN it.oldLeft ELSE {})
(***************************************************************************)
(* C08: every element present at creation exactly once and nothing else;   *)
(* len()/size_hint() exact at every step; None only at the end, and then   *)
(* forever.                                                                *)
(***************************************************************************)
\* between calls (no iterator alive) the cached cursor agrees with the old table; C09: retain visits each
\* element exactly once (ItExact with kind = "retain") and what is still to be visited is still there
CursorAtRest == ~it.on => Cursor
RetainCoherent == (Ok /\ it.on /\ it.kind = "retain") =>
                     (it.mainLeft \subseteq KeysOf(M) /\ (it.oldSome => it.oldLeft \subseteq KeysOf(O)))
ItExact ==
    (Ok /\ it.on) =>
        /\ it.yielded \cap Remaining = {}                    \* nothing twice
        /\ it.yielded \cup Remaining = it.keys0              \* nothing lost, nothing else
        /\ it.mainLeft \cap it.oldLeft = {}
        /\ SizeHint = Cardinality(it.keys0 \ it.yielded)     \* exact length
        /\ (it.none => it.yielded = it.keys0)                \* None only after the last element
        /\ (it.none => SizeHint = 0)                         \* ... and forever after (fused)
=============================================================================

---------------------------- MODULE TraceGriddle ----------------------------
(***************************************************************************)
(* Strict, implementation-level trace specification at the *content*       *)
(* level: every recorded public call must be explained by the              *)
(* corresponding action(s) of Griddle.tla -- which keys are in the main    *)
(* table, which are still in the old table, what the cached old-table      *)
(* iterator would still yield (keys and count), bucket counts and          *)
(* growth_left -- exactly as the hook observed them on the real tables.    *)
(* The explicit nondeterminism of the actions is resolved from the         *)
(* observation (which keys a carry moved = the keys that changed table)    *)
(* or quantified (tombstone or not, number of tombstone reuses).           *)
(*                                                                         *)
(* This is what transfers the exhaustive results on Griddle.tla (MCSmall:  *)
(* refinement to RefMap and GriddleCount, cursor/iterator exactness;       *)
(* MCFault: the loss bound of interrupted calls; MCIter) to the code:      *)
(*   - a call interrupted by a panicking Hash must land in the state       *)
(*     F_InsertNew / F_OverwriteOld / F_Reserve predict (done, victim),    *)
(*   - retain / drain_filter interrupted by a panicking predicate must     *)
(*     land in EraseSet / RemoveSet of the subset processed so far,        *)
(*   - entry and raw-entry chains are folds of the single steps.           *)
(* Values are projected away (every element is <<key, 0>>): value          *)
(* correctness is TraceRef's business.  A mismatch is reported as          *)
(*     <<"STRICT-FAIL", name, line, op>>                                   *)
(* (spec drift, not a property violation); the state is re-synchronised    *)
(* to the observation so the rest of the trace is still checked.           *)
(***************************************************************************)
EXTENDS Integers, Sequences, FiniteSets, SequencesExt, TLC, Json, IOUtils

Rec == ndJsonDeserialize(IOEnv.TRACE)
Hdr == Rec[1]
RR == Hdr.R
GWW == Hdr.GW
MU == 16777215      \* stands for usize::MAX (offsets from the limit are preserved)

VARIABLES l, snap
vars == <<l, snap>>

G(P) == INSTANCE Griddle WITH
            Key <- {}, Val <- {0}, R <- RR, GW <- GWW, MaxUsize <- MU, ElemSize <- 8,
            M <- P.M, O <- P.O, mB <- P.mB, mG <- P.mG, oP <- P.oP, oB <- P.oB,
            cur <- P.cur, cN <- P.cN, err <- P.err
HB == INSTANCE Hashbrown WITH GW <- GWW, MaxUsize <- MU, ElemSize <- 8

HasF(r, f) == f \in DOMAIN r
MinI(a, b) == IF a < b THEN a ELSE b
SlotIdx(st, s) == {i \in DOMAIN st : st[i].s = s}
Alive(st, s) == SlotIdx(st, s) # {}
SlotR(st, s) == st[CHOOSE i \in SlotIdx(st, s) : TRUE]
IsFull(r) == r.full = 1
KS(seq) == {seq[i][1] : i \in DOMAIN seq}
Z(K) == {<<k, 0>> : k \in K}
K1(E) == {x[1] : x \in E}

\* the content state the hook observed (values projected to 0)
Cst(r) == [M |-> Z(KS(r.main)), O |-> Z(KS(r.old)), mB |-> r.mB, mG |-> r.mC - r.mI, oP |-> r.sp = 1,
           oB |-> r.oB, cur |-> ToSet(r.cur), cN |-> r.cI, err |-> "none"]
PreR(s) == SlotR(snap, s)
PostR(e, s) == SlotR(e.st, s)
Pre(s) == Cst(PreR(s))
Post(e, s) == Cst(PostR(e, s))
Both(e, s) == Alive(snap, s) /\ Alive(e.st, s) /\ IsFull(PreR(s)) /\ IsFull(PostR(e, s))

Strict(name, e, cond, detail) ==
    IF cond THEN TRUE ELSE PrintT(<<"STRICT-FAIL", name, l, e.op>>) /\ PrintT(<<"STRICT-DETAIL", detail>>)

Panicked(e) == e.res.t = "panic"
Fired(e) == HasF(e, "fault") /\ e.fault.fired = 1

ArgVal(a) ==
    CASE HasF(a, "max_minus") -> MU - a.max_minus
      [] HasF(a, "imax_minus") -> (MU \div 2) - a.imax_minus
      [] HasF(a, "imax_plus") -> (MU \div 2) + a.imax_plus
      [] HasF(a, "eighth_minus") -> (MU \div 8) - a.eighth_minus
      [] HasF(a, "eighth_plus") -> (MU \div 8) + a.eighth_plus
NArg(e, f) == IF e.big = 1 THEN ArgVal(e[f]) ELSE e[f]

RuS == 0..(RR + 1)
FirstN(S, n) == LET sq == SetToSortSeq(S, LAMBDA a, b : a < b) IN {sq[i] : i \in 1..MinI(n, Len(sq))}

Loc(P, k) == IF k \in K1(P.M) THEN "main" ELSE IF k \in K1(P.O) THEN "old" ELSE "absent"

(***************************************************************************)
(* Admissible post-states per step                                         *)
(***************************************************************************)
\* the state in which the carry of an insertion of an absent key runs
CarrySt(P) ==
    IF P.mG = 0 /\ ~P.oP /\ P.M # {} /\ G(P)!GrowB(Cardinality(P.M), 1) # HB!Overflow THEN G(P)!Grown(P, 1) ELSE P
\* the keys the carry is observed to have moved: they are in the main table of the final state F
InsMv(P, F, k) == (K1(F.M) \ {k}) \cap K1(CarrySt(P).O)
\* ... limited to what one carry moves (a chain may contain several key-adding steps)
\* (if fewer than that are in the final main table, a later step of the same call grew the table again and
\* sent them back to a new old table; growth only happens once the old table is gone, so everything had
\* been moved by then and any choice will do: fill up with other old-table keys)
InsMvN(P, F, k) ==
    LET C == CarrySt(P)
        n == MinI(RR, MinI(C.cN, Cardinality(C.cur)))
        first == FirstN(InsMv(P, F, k), n)
    IN first \cup FirstN(K1(C.O) \ first, n - Cardinality(first))
InsertNewPosts(P, k, mv) ==
    {G(P)!InsertNew_Post(k, 0, mv, ru) : ru \in {x \in RuS : G(P)!InsertNew_En(k, 0, mv, x)}}
OverwriteOldPosts(P, k, mv) ==
    {G(P)!OverwriteOld_Post(k, 0, mv, ru) : ru \in {x \in RuS : G(P)!OverwriteOld_En(k, 0, mv, x)}}
RemovePosts(P, k) == {G(P)!RemoveK_Post(k, t) : t \in {x \in BOOLEAN : G(P)!RemoveK_En(k, x)}}
ErasePosts(P, S) ==
    {G(P)!EraseSet_Post(S, nt) : nt \in {x \in 0..Cardinality(K1(P.M) \cap S) : G(P)!EraseSet_En(S, x)}}
RemoveSetPosts(P, S) ==
    {G(P)!RemoveSet_Post(S, nt) : nt \in {x \in 0..Cardinality(K1(P.M) \cap S) : G(P)!EraseSet_En(S, x)}}
ReservePosts(P, n) == {G(P)!Reserve_Post(n, ru) : ru \in {x \in 0..P.cN : G(P)!Reserve_En(n, x)}}
ClonePosts(P) == {G(P)!Clone_Post(ru) : ru \in {x \in 0..P.cN : G(P)!Clone_En(x)}}
CloneFromPosts(P, D) == {G(P)!CloneFrom_Post(D, ru) : ru \in {x \in 0..P.cN : G(P)!CloneFrom_En(D, x)}}

\* HashMap::insert / HashSet::insert of k
InsertPosts(P, Q, k) ==
    CASE Loc(P, k) = "absent" -> InsertNewPosts(P, k, InsMv(P, Q, k))
      [] Loc(P, k) = "main" -> {P}
      [] OTHER -> OverwriteOldPosts(P, k, K1(Q.M) \cap K1(P.O))
\* get_or_insert*, replace: insert only when absent, otherwise nothing moves
InsertIfAbsentPosts(P, Q, k) == IF Loc(P, k) = "absent" THEN InsertNewPosts(P, k, InsMv(P, Q, k)) ELSE {P}

(***************************************************************************)
(* Entry / raw-entry chains: folds of the structural steps.                *)
(***************************************************************************)
ChainStep(S, m, o, k, F) ==
    IF HasF(o, "na") THEN S
    ELSE
    LET name == m.m
        some == HasF(m, "some")
        Ins(x) == IF Loc(x, k) = "absent" THEN InsertNewPosts(x, k, InsMvN(x, F, k)) ELSE {x}
        Rm(x) == RemovePosts(x, k)
        Er(x) == IF Loc(x, k) = "absent" THEN {x} ELSE ErasePosts(x, {k})
    IN
    CASE name \in {"or_insert", "or_insert_with", "or_insert_with_key", "or_default", "insert",
                   "v_insert", "v_insert_hashed", "v_insert_with_hasher"} -> UNION {Ins(x) : x \in S}
      [] name \in {"o_remove", "o_remove_entry"} -> UNION {Rm(x) : x \in S}
      [] name \in {"and_replace_entry_with", "o_replace_entry_with"} /\ ~some -> UNION {Er(x) : x \in S}
      [] OTHER -> S
RECURSIVE ChainFold(_, _, _, _)
ChainFold(S, e, i, F) ==
    IF i > Len(e.chain) THEN S ELSE ChainFold(ChainStep(S, e.chain[i], e.obs[i], e.k, F), e, i + 1, F)

(***************************************************************************)
(* Sequences of insertions of keys that are not in the map (extend,        *)
(* from_iter, the harness's Probe): a fold of InsertNew.  Which elements   *)
(* an intermediate carry moved is not observable, but every choice among   *)
(* the keys observed in the main table at the end gives the same final     *)
(* state, so each carry takes the smallest ones.                           *)
(***************************************************************************)
InsStep(acc, k, F) ==
    UNION {IF Loc(x, k) = "absent" THEN InsertNewPosts(x, k, InsMvN(x, F, k)) ELSE {} : x \in acc}
RECURSIVE InsFold(_, _, _, _)
InsFold(S, keys, i, F) == IF i > Len(keys) \/ S = {} THEN S ELSE InsFold(InsStep(S, keys[i], F), keys, i + 1, F)
KeySeq(objs) == [i \in DOMAIN objs |-> objs[i][1]]
Distinct(sq) == Cardinality({sq[i] : i \in DOMAIN sq}) = Len(sq)
AllAbsent(P, sq) == \A i \in DOMAIN sq : Loc(P, sq[i]) = "absent"

(***************************************************************************)
(* Calls interrupted by an injected panic (C07)                            *)
(***************************************************************************)
Gone(P, Q) == (K1(P.M) \cup K1(P.O)) \ (K1(Q.M) \cup K1(Q.O))
FaultPosts(e, P, Q) ==
    LET kind == e.fault.kind IN    \* 0 Hash, 1 Eq, 2 Clone, 3 closure
    CASE e.op \in {"Insert", "SInsert"} /\ kind = 0 ->
             IF e.fault.at = 1 THEN {P}          \* the hash of the argument itself: nothing has happened yet
             ELSE IF Loc(P, e.k) = "absent"
             THEN LET C == CarrySt(P)
                      done == (K1(Q.M) \ {e.k}) \cap K1(C.O)
                  IN {G(P)!F_InsertNew_Post(e.k, 0, done, e.fault.victim, ru) :
                         ru \in {x \in RuS : G(P)!F_InsertNew_En(e.k, 0, done, e.fault.victim, x)}}
             ELSE IF Loc(P, e.k) = "old"
             THEN LET done == K1(Q.M) \cap K1(P.O) IN
                  {G(P)!F_OverwriteOld_Post(e.k, 0, done, e.fault.victim, ru) :
                      ru \in {x \in RuS : G(P)!F_OverwriteOld_En(e.k, 0, done, e.fault.victim, x)}}
             ELSE {}                              \* overwriting in the main table hashes once
      [] e.op \in {"Insert", "SInsert", "Get", "Remove", "RemoveEntry", "SRemove", "STake", "SContains", "SGet",
                   "SReplace", "SGetOrInsert", "SGetOrInsertOwned"} /\ kind = 1 -> {P}   \* Eq runs inside find()
      [] e.op \in {"Get", "Remove", "RemoveEntry", "SRemove", "STake", "SContains", "SGet"} /\ kind = 0 -> {P}
      [] e.op \in {"Reserve", "TryReserve"} /\ kind = 0 ->
             LET done == K1(Q.M) \cap K1(P.O)
                 n == NArg(e, "n")
             IN {G(P)!F_Reserve_Post(done, e.fault.victim, ru) :
                    ru \in {x \in 0..Cardinality(done) : G(P)!F_Reserve_En(n, done, e.fault.victim, x)}}
      [] e.op = "Retain" /\ kind = 3 ->
             LET S == Gone(P, Q) IN
             {G(P)!F_Retain_Post(S, nt) : nt \in {x \in 0..Cardinality(K1(P.M) \cap S) : G(P)!EraseSet_En(S, x)}}
      [] e.op = "DrainFilter" /\ kind = 3 ->
             LET S == Gone(P, Q) IN
             {G(P)!F_DrainFilter_Post(S, nt) : nt \in {x \in 0..Cardinality(K1(P.M) \cap S) : G(P)!EraseSet_En(S, x)}}
      [] OTHER -> {Q}       \* not modelled at this level

(***************************************************************************)
(* Per-operation strict conformance                                        *)
(***************************************************************************)
Empty(b) == [M |-> {}, O |-> {}, mB |-> b, mG |-> HB!Cap(b), oP |-> FALSE, oB |-> 0, cur |-> {}, cN |-> 0, err |-> "none"]

SOp(e) ==
    LET s == e.s IN
    CASE e.op = "New" ->
             (~Panicked(e) /\ Alive(e.st, s) /\ IsFull(PostR(e, s))) =>
                 Strict("g_with_capacity", e, Post(e, s) = Empty(HB!WithCapB(NArg(e, "cap"))), <<Post(e, s)>>)
      [] e.op \in {"Insert", "SInsert"} ->
             (Both(e, s) /\ ~Panicked(e)) =>
                 LET P == Pre(s)
                     Q == Post(e, s)
                 IN Strict("g_insert", e, Q \in InsertPosts(P, Q, e.k), <<Loc(P, e.k), P, Q, InsertPosts(P, Q, e.k)>>)
      [] e.op \in {"SReplace", "SGetOrInsert", "SGetOrInsertOwned", "SGetOrInsertWith"} ->
             (Both(e, s) /\ ~Panicked(e)) =>
                 LET P == Pre(s)
                     Q == Post(e, s)
                 IN Strict("g_insert_if_absent", e, Q \in InsertIfAbsentPosts(P, Q, e.k), <<Loc(P, e.k), P, Q>>)
      [] e.op \in {"Get", "SContains", "SGet", "Iter", "Eq", "SAlg", "Debug"} ->
             Both(e, s) => Strict("g_read_only", e, Post(e, s) = Pre(s), <<Pre(s), Post(e, s)>>)
      [] e.op \in {"Remove", "RemoveEntry", "SRemove", "STake"} ->
             (Both(e, s) /\ ~Panicked(e)) =>
                 Strict("g_remove", e, Post(e, s) \in RemovePosts(Pre(s), e.k), <<Loc(Pre(s), e.k), Pre(s), Post(e, s)>>)
      [] e.op = "Clear" ->
             Both(e, s) => Strict("g_clear", e, Post(e, s) = G(Pre(s))!Clear_Post, <<Pre(s), Post(e, s)>>)
      [] e.op = "Drain" ->
             Both(e, s) => Strict("g_drain", e, Post(e, s) = G(Pre(s))!Drain_Post(e.end = "forget"), <<Pre(s), Post(e, s)>>)
      [] e.op \in {"Reserve", "TryReserve"} ->
             Both(e, s) =>
                 LET P == Pre(s)
                     n == NArg(e, "n")
                 IN Strict("g_reserve", e, Post(e, s) \in ReservePosts(P, n), <<n, P, Post(e, s), ReservePosts(P, n)>>)
      [] e.op \in {"ShrinkTo", "ShrinkToFit"} ->
             Both(e, s) =>
                 LET P == Pre(s)
                     m == IF e.op = "ShrinkToFit" THEN 0 ELSE NArg(e, "n")
                 IN Strict("g_shrink_to", e, Post(e, s) = G(P)!ShrinkTo_Post(m), <<m, P, Post(e, s), G(P)!ShrinkTo_Post(m)>>)
      [] e.op = "Retain" ->
             (Both(e, s) /\ ~Panicked(e)) =>
                 LET P == Pre(s)
                     Q == Post(e, s)
                 IN Strict("g_retain", e, Q \in ErasePosts(P, Gone(P, Q)), <<Gone(P, Q), P, Q>>)
      [] e.op = "DrainFilter" ->
             (Both(e, s) /\ ~Panicked(e)) =>
                 LET P == Pre(s)
                     Q == Post(e, s)
                 IN Strict("g_drain_filter", e, Q \in RemoveSetPosts(P, Gone(P, Q)), <<Gone(P, Q), P, Q>>)
      [] e.op \in {"Entry", "RawEntry"} ->
             (Both(e, s) /\ ~Panicked(e)) =>
                 LET P == Pre(s)
                     Q == Post(e, s)
                     F == ChainFold({P}, e, 1, Q)
                 IN Strict("g_entry_chain", e, Q \in F, <<Loc(P, e.k), P, Q, F>>)
      [] e.op = "Clone" ->
             (Alive(snap, s) /\ IsFull(PreR(s)) /\ Alive(e.st, e.d) /\ IsFull(PostR(e, e.d)) /\ ~Panicked(e)) =>
                 Strict("g_clone", e, Post(e, e.d) \in ClonePosts(Pre(s)), <<Pre(s), Post(e, e.d), ClonePosts(Pre(s))>>)
      [] e.op = "CloneFrom" ->
             (Alive(snap, s) /\ IsFull(PreR(s)) /\ Alive(snap, e.d) /\ Alive(e.st, e.d) /\ IsFull(PostR(e, e.d)) /\ ~Panicked(e)) =>
                 LET S == Pre(s)
                     D == SlotR(snap, e.d)
                     Dt == HB!Tbl(D.mB, D.mI, D.mC - D.mI)
                 IN Strict("g_clone_from", e, Post(e, e.d) \in CloneFromPosts(S, Dt), <<S, Dt, Post(e, e.d), CloneFromPosts(S, Dt)>>)
      [] e.op = "Probe" ->
             (Both(e, s) /\ ~Panicked(e) /\ Hdr.elem # "zst") =>
                 LET P == Pre(s)
                     Q == Post(e, s)
                     ks == KeySeq(e.objs)
                 IN (Distinct(ks) /\ AllAbsent(P, ks)) =>
                        Strict("g_probe", e, Q \in InsFold({P}, ks, 1, Q), <<P, Q>>)
      [] e.op = "Extend" ->
             \* reserve(hint if empty, else half of it rounded up), then one insert per item
             (Both(e, s) /\ ~Panicked(e) /\ e.big = 0 /\ Hdr.elem # "zst") =>
                 LET P == Pre(s)
                     Q == Post(e, s)
                     ks == KeySeq(e.items)
                     empty == P.M = {} /\ P.O = {}
                     rsv == IF empty THEN e.hint ELSE (e.hint + 1) \div 2
                 IN (Distinct(ks) /\ AllAbsent(P, ks)) =>
                        Strict("g_extend", e, Q \in InsFold(ReservePosts(P, rsv), ks, 1, Q), <<rsv, P, Q>>)
      [] e.op = "FromIter" ->
             (~Panicked(e) /\ e.big = 0 /\ Hdr.elem # "zst" /\ Alive(e.st, s) /\ IsFull(PostR(e, s))) =>
                 LET Q == Post(e, s)
                     ks == KeySeq(e.items)
                 IN Distinct(ks) =>
                        Strict("g_from_iter", e, Q \in InsFold({Empty(HB!WithCapB(e.hint))}, ks, 1, Q), <<e.hint, Q>>)
      [] e.op = "Par" ->
             \* MCPar: the main table is driven to completion before the old table is started
             (Both(e, s) /\ ~Panicked(e) /\ IsFull(PreR(s))) =>
                 LET r == PreR(s)
                     \* which table the visited element was in: by object id when there is one, else by key
                     InT(v, seq) == \E i \in DOMAIN seq :
                                       IF v[3] # 0 THEN seq[i][3] = v[3]
                                       ELSE IF v[4] # 0 THEN seq[i][4] = v[4]
                                       ELSE (v[1] # 0 /\ seq[i][1] = v[1])
                     iMain == {i \in DOMAIN e.visits : InT(e.visits[i], r.main)}
                     iOld == {i \in DOMAIN e.visits : InT(e.visits[i], r.old)}
                 IN Strict("g_par_main_before_old", e, \A i \in iMain, j \in iOld : i < j, <<iMain, iOld>>)
      [] OTHER -> TRUE

SFault(e) ==
    LET s == e.s IN
    (HasF(e, "s") /\ ~(e.op \in {"Clone", "CloneFrom", "Eq", "SAlg"}) /\ Both(e, s)) =>
        LET P == Pre(s)
            Q == Post(e, s)
        IN Strict("g_fault_" \o e.op, e, Q \in FaultPosts(e, P, Q), <<e.fault, P, Q, FaultPosts(e, P, Q)>>)

Init == l = 2 /\ snap = <<>>

Step ==
    /\ l <= Len(Rec)
    /\ LET e == Rec[l] IN
       CASE e.op = "Reset" -> snap' = <<>>
         [] e.op \in {"Skip", "EndRun"} -> UNCHANGED snap
         [] e.op = "Snap" -> snap' = e.st
         [] OTHER ->
                /\ (IF Fired(e) /\ Panicked(e) THEN SFault(e) ELSE SOp(e)) = TRUE
                /\ snap' = e.st
    /\ l' = l + 1

Spec == Init /\ [][Step]_vars

Accepted ==
    LET d == TLCGet("stats").diameter IN
    IF d = Len(Rec) THEN TRUE
    ELSE /\ PrintT(<<"TRACE-REJECTED at line", d + 1, IF d + 1 <= Len(Rec) THEN Rec[d + 1].op ELSE "?">>)
         /\ FALSE
=============================================================================

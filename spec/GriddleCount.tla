---------------------------- MODULE GriddleCount ----------------------------
(***************************************************************************)
(* Counter abstraction of griddle's raw table (src/raw/mod.rs): the two    *)
(* hashbrown tables and the cached cursor, as integers only.  One action   *)
(* per critical section of the code, each taking the nondeterminism the    *)
(* code resolves by hashing (tombstone or not, how many relocated elements *)
(* land on tombstones) as an explicit parameter.                           *)
(*                                                                         *)
(*   mB mI mG   main table: buckets, items, growth_left                    *)
(*   oP         an old table ("leftovers") is present                      *)
(*   oB oI      old table: buckets, items                                  *)
(*   cI         the cached RawIter's remaining-items counter               *)
(*   err        "none", or the first contract breach / undocumented panic  *)
(*              the code would hit (exploration stops there)               *)
(*                                                                         *)
(* Style: every action A(p) is  A_En(p) /\ Apply(A_Post(p))  where A_Post  *)
(* is a *function* of the current state and the parameters returning the   *)
(* post-state record.  The model checker, the per-property contracts       *)
(* (quantified over parameters, evaluated once per reachable state) and    *)
(* the trace specification all use the same A_Post.                        *)
(***************************************************************************)
EXTENDS Integers, TLC

CONSTANTS R,         \* elements moved per key-adding call (8; 4 under cfg(test)/miri)
          GW, MaxUsize, ElemSize,
          FixD1,     \* shrink_to drops an empty-but-present old table   (TRUE = repaired code)
          FixD4,     \* checked additions in reserve/try_reserve/try_grow (TRUE = repaired code)
          FixD6,     \* clone_from resets an empty destination table first  (TRUE = repaired code)
          FixD8,     \* extend() halves the size hint without overflowing    (TRUE = repaired code)
          Debug      \* debug_assertions + overflow checks on

VARIABLES mB, mI, mG, oP, oB, oI, cI, err
vars == <<mB, mI, mG, oP, oB, oI, cI, err>>

HB == INSTANCE Hashbrown
Cap(b) == HB!Cap(b)
Min(a, b) == HB!Min(a, b)
Max(a, b) == HB!Max(a, b)
CeilDiv(a, d) == HB!CeilDiv(a, d)

Main == HB!Tbl(mB, mI, mG)
OldLen == IF oP THEN oI ELSE 0
Len == mI + OldLen
Capacity == mI + mG
Ok == err = "none"

St == [mB |-> mB, mI |-> mI, mG |-> mG, oP |-> oP, oB |-> oB, oI |-> oI, cI |-> cI, err |-> err]
Mk(T, p, b, n, c) == [mB |-> T.b, mI |-> T.i, mG |-> T.g, oP |-> p, oB |-> b, oI |-> n, cI |-> c, err |-> "none"]
MkNoOld(T) == Mk(T, FALSE, 0, 0, 0)
MkKeepOld(T) == Mk(T, oP, oB, oI, cI)
MkOld(T, b, n) == IF n > 0 THEN Mk(T, TRUE, b, n, n) ELSE MkNoOld(T)
Fail(e) == [St EXCEPT !.err = e]
Apply(P) == /\ mB' = P.mB /\ mI' = P.mI /\ mG' = P.mG
            /\ oP' = P.oP /\ oB' = P.oB /\ oI' = P.oI /\ cI' = P.cI /\ err' = P.err
PLen(P) == P.mI + (IF P.oP THEN P.oI ELSE 0)
PCap(P) == P.mI + P.mG

InitWith(c) == /\ mB = HB!WithCapB(c) /\ mI = 0 /\ mG = Cap(HB!WithCapB(c))
               /\ oP = FALSE /\ oB = 0 /\ oI = 0 /\ cI = 0
               /\ err = "none"
Init == InitWith(0)

(***************************************************************************)
(* try_grow(extra) on a table with i items: the capacity requested for the *)
(* new main table.  Without FixD4 the sum wraps (release) or panics        *)
(* (debug); with it, a wrap is reported as capacity overflow.              *)
(***************************************************************************)
GrowWant(i, extra) == i + CeilDiv(i, R) + Max(extra, CeilDiv(i, R))
Wrap(x) == IF x > MaxUsize THEN x - (MaxUsize + 1) ELSE x
GrowB(i, extra) == HB!WithCapB(Wrap(GrowWant(i, extra)))
\* "ok" | "overflow" (documented capacity-overflow outcome) | "dbg" (debug-only arithmetic panic)
GrowKind(i, extra) ==
    IF GrowWant(i, extra) > MaxUsize
    THEN (IF FixD4 THEN "overflow" ELSE IF Debug THEN "dbg" ELSE
          IF GrowB(i, extra) = HB!Overflow THEN "overflow" ELSE "ok")
    ELSE IF GrowB(i, extra) = HB!Overflow THEN "overflow" ELSE "ok"

CarryN == Min(R, cI)
CursorBad == oP /\ cI # oI

(***************************************************************************)
(* Key-adding call, key absent: RawTable::insert (HashMap::insert,         *)
(* VacantEntry::insert, RawVacantEntryMut::insert*, or_insert*, ...).      *)
(*   ru = how many of the 1 + moved insert_no_grow calls land on a         *)
(*        tombstone.                                                       *)
(***************************************************************************)
InsertGrows == mG = 0
\* what the caller sees: "ok" | "panic" (documented capacity overflow)
InsertKind == IF InsertGrows /\ ~oP /\ GrowKind(mI, 1) = "overflow" THEN "panic" ELSE "ok"
InsertNew_En(ru) ==
    /\ Ok
    /\ IF InsertGrows \/ CursorBad THEN ru = 0
       ELSE ru = 0 \/ HB!InsNoGrowNOK(Main, 1 + (IF oP THEN CarryN ELSE 0), ru)
InsertNew_Post(ru) ==
    IF InsertGrows
    THEN \* capacity() == len(): assert!(leftovers.is_none()); grow(1); retry
         IF oP THEN Fail("assert_leftovers_none")
         ELSE CASE GrowKind(mI, 1) = "dbg" -> Fail("overflow_try_grow")
                [] GrowKind(mI, 1) = "overflow" -> St
                [] OTHER ->
                   LET nb == GrowB(mI, 1)
                       n == Min(R, mI)
                       T == HB!FreshTbl(nb)
                   IN  IF ~HB!InsNoGrowNOK(T, 1 + n, 0) THEN Fail("insert_no_grow_full")
                       ELSE MkOld(HB!InsNoGrowN(T, 1 + n, 0), mB, mI - n)
    ELSE LET n == IF oP THEN CarryN ELSE 0 IN
         IF CursorBad THEN Fail("cursor_disagrees")
         ELSE IF ~HB!InsNoGrowNOK(Main, 1 + n, ru) THEN Fail("insert_no_grow_full")
         ELSE MkOld(HB!InsNoGrowN(Main, 1 + n, ru), oB, OldLen - n)
InsertNew(ru) == InsertNew_En(ru) /\ Apply(InsertNew_Post(ru))
\* cost of the call: hash computations, elements moved, table allocations / deallocations
InsertNew_Cost(ru) ==
    LET P == InsertNew_Post(ru)
        moved == IF InsertGrows THEN (IF ~oP /\ GrowKind(mI, 1) = "ok" THEN Min(R, mI) ELSE 0)
                 ELSE (IF oP THEN CarryN ELSE 0)
        grew == InsertGrows /\ ~oP /\ GrowKind(mI, 1) = "ok"
    IN [hashes |-> 1 + moved, moved |-> moved,
        allocs |-> IF grew THEN 1 ELSE 0,
        frees |-> (IF grew /\ mI = 0 /\ mB > 1 THEN 1 ELSE 0)
                  + (IF (oP \/ grew) /\ ~P.oP /\ (oP \/ mI > 0) THEN 1 ELSE 0)]

\* HashMap::insert on a key found in the old table: value replaced in place, then carry()
OverwriteOld_En(ru) ==
    /\ Ok /\ oP /\ oI > 0
    /\ IF CursorBad THEN ru = 0 ELSE ru = 0 \/ HB!InsNoGrowNOK(Main, CarryN, ru)
OverwriteOld_Post(ru) ==
    LET n == CarryN IN
    IF CursorBad THEN Fail("cursor_disagrees")
    ELSE IF ~HB!InsNoGrowNOK(Main, n, ru) THEN Fail("insert_no_grow_full")
    ELSE MkOld(HB!InsNoGrowN(Main, n, ru), oB, oI - n)
OverwriteOld(ru) == OverwriteOld_En(ru) /\ Apply(OverwriteOld_Post(ru))

\* remove / remove_entry / OccupiedEntry::remove* / drain_filter removing
\* ne+nt main elements (nt leaving tombstones) and no old elements:
\* RawTable::remove frees the old table when it empties it
Removed_En(ne, nt, no) ==
    /\ Ok /\ ne + nt <= mI /\ no <= OldLen
    /\ nt > 0 => HB!TombPossible(Main)
Removed_Post(ne, nt, no) ==
    LET T == HB!EraseN(Main, ne, nt) IN
    IF oP /\ no > 0 /\ oI - no = 0 THEN MkNoOld(T) ELSE Mk(T, oP, oB, oI - no, cI - no)
Removed(ne, nt, no) == Removed_En(ne, nt, no) /\ Apply(Removed_Post(ne, nt, no))

\* retain(f) / replace_entry_with(None): RawTable::erase and replace_bucket_with
\* never free the old table
Erased_En(ne, nt, no) == Removed_En(ne, nt, no)
Erased_Post(ne, nt, no) == Mk(HB!EraseN(Main, ne, nt), oP, oB, oI - no, cI - no)
Erased(ne, nt, no) == Erased_En(ne, nt, no) /\ Apply(Erased_Post(ne, nt, no))

\* clear(): drops the old table, clears main (an already-empty main keeps its tombstones)
Clear_Post == MkNoOld(HB!Clear(Main))
Clear == Ok /\ Apply(Clear_Post)

\* drain(): old table taken out at once; main reset when the Drain is dropped,
\* or left as the unallocated singleton when it is forgotten
Drain_Post(forgotten) == MkNoOld(IF forgotten THEN HB!NewTbl ELSE HB!ClearNoDrop(Main))
Drain(forgotten) == Ok /\ Apply(Drain_Post(forgotten))

(***************************************************************************)
(* reserve(n) (fallible = FALSE) / try_reserve(n) (fallible = TRUE)        *)
(***************************************************************************)
NeedWant(n) == OldLen + n
Need(n) == Wrap(NeedWant(n))
\* the table after carry_all(): growing inserts, ru of them on tombstones
CarriedAll(ru) == IF oP THEN HB!InsGrowNR(Main, cI, ru) ELSE Main
RuMaxAll == IF oP THEN Min(cI, HB!Lost(Main)) ELSE 0
\* "fast" | "grow" | "overflow" (Err / documented panic) | "dbg" (debug-only arithmetic panic)
ReservePath(n) ==
    IF NeedWant(n) > MaxUsize /\ FixD4 THEN "overflow"
    ELSE IF NeedWant(n) > MaxUsize /\ Debug THEN "dbg"
    ELSE IF mG > Need(n) THEN "fast"
    ELSE LET k == GrowKind(Len, n) IN IF k = "ok" THEN "grow" ELSE k
\* what the caller observes: "ok" | "err" | "panic"
ReserveKind(n, fallible) ==
    LET p == ReservePath(n) IN
    IF p \in {"fast", "grow"} THEN "ok" ELSE IF p = "overflow" /\ fallible THEN "err" ELSE "panic"
Reserve_En(n, ru) ==
    /\ Ok
    /\ IF ReservePath(n) = "fast" \/ NeedWant(n) > MaxUsize \/ CursorBad THEN ru = 0 ELSE ru <= RuMaxAll
Reserve_Post(n, ru) ==
    LET p == ReservePath(n) IN
    IF p = "fast" THEN St
    ELSE IF p = "overflow" /\ NeedWant(n) > MaxUsize THEN St
    ELSE IF p = "dbg" /\ NeedWant(n) > MaxUsize THEN Fail("overflow_reserve_need")
    ELSE IF CursorBad THEN Fail("cursor_disagrees")
    ELSE LET M1 == CarriedAll(ru) IN
         CASE p = "dbg" -> Fail("overflow_try_grow")
           [] p = "overflow" -> MkNoOld(M1)       \* Err / panic after carry_all happened
           [] OTHER -> MkOld(HB!FreshTbl(GrowB(Len, n)), M1.b, M1.i)
ReserveCall(n, ru) == Reserve_En(n, ru) /\ Apply(Reserve_Post(n, ru))

(***************************************************************************)
(* extend(iter): reserve the whole lower size hint h if the map is empty,  *)
(* else half of it rounded up; then one insert per item (InsertNew /       *)
(* OverwriteOld steps).  Before the repair the half was (h + 1) / 2.       *)
(***************************************************************************)
ExtendRsv(h) == IF Len = 0 THEN h
                ELSE IF FixD8 THEN (h \div 2) + (h % 2)
                ELSE Wrap(h + 1) \div 2
ExtendReserve_En(h, ru) == Ok /\ (IF ~FixD8 /\ Len > 0 /\ h + 1 > MaxUsize /\ Debug THEN ru = 0 ELSE Reserve_En(ExtendRsv(h), ru))
ExtendReserve_Post(h, ru) ==
    IF ~FixD8 /\ Len > 0 /\ h + 1 > MaxUsize /\ Debug THEN Fail("overflow_extend_hint")
    ELSE Reserve_Post(ExtendRsv(h), ru)
ExtendReserve(h, ru) == ExtendReserve_En(h, ru) /\ Apply(ExtendReserve_Post(h, ru))

(***************************************************************************)
(* shrink_to(m) / shrink_to_fit() = shrink_to(0)                           *)
(***************************************************************************)
ShrinkNeed == mI + (IF oP THEN oI + CeilDiv(oI, R) ELSE 0)
ShrinkTo_Post(m) ==
    LET T == HB!ShrinkTo(Main, Max(ShrinkNeed, m)) IN
    IF FixD1 /\ oP /\ oI = 0 THEN MkNoOld(T) ELSE MkKeepOld(T)
ShrinkTo(m) == Ok /\ Apply(ShrinkTo_Post(m))

\* clone(): the clone replaces the slot (single-slot exploration continues from the clone)
CloneSelf_En(ru) == Ok /\ (IF CursorBad THEN ru = 0 ELSE ru <= RuMaxAll)
CloneSelf_Post(ru) ==
    IF CursorBad THEN Fail("cursor_disagrees")
    ELSE MkNoOld(IF oP THEN HB!InsGrowNR(HB!Clone(Main), cI, ru) ELSE HB!Clone(Main))
CloneSelf(ru) == CloneSelf_En(ru) /\ Apply(CloneSelf_Post(ru))

\* clone_from(source = this map) into a destination whose main table is D: the destination's
\* old table is dropped, its main table goes through hashbrown's clone_from_with_hasher, then
\* the source's old-table elements are inserted with growing inserts (ru on tombstones)
CloneFromUnderflows(D) ==
    HB!CloneFromUnderflows(IF FixD6 /\ D.i = 0 THEN HB!ClearNoDrop(D) ELSE D, Main)
CloneFromMain(D, ru) ==
    HB!InsGrowNR(HB!CloneFromWithHasher(IF FixD6 /\ D.i = 0 THEN HB!ClearNoDrop(D) ELSE D, Main),
                 IF oP THEN cI ELSE 0, ru)

\* dst.clone_from(self) where the destination's main table is D (its old table, if any, is
\* dropped first): exploration continues from the destination
CloneFromInto_En(D, ru) == Ok /\ (IF CursorBad THEN ru = 0 ELSE ru <= (IF oP THEN cI ELSE 0))
CloneFromInto_Post(D, ru) ==
    IF CursorBad THEN Fail("cursor_disagrees")
    ELSE IF CloneFromUnderflows(D) THEN Fail("hb_clone_from_growth_left_underflow")
    ELSE MkNoOld(CloneFromMain(D, ru))
CloneFromInto(D, ru) == CloneFromInto_En(D, ru) /\ Apply(CloneFromInto_Post(D, ru))

(***************************************************************************)
(* Invariants                                                              *)
(***************************************************************************)
TypeOK ==
    /\ mB \in Nat /\ mI \in Nat /\ mG \in Nat /\ oB \in Nat /\ oI \in Nat /\ cI \in Nat
    /\ oP \in BOOLEAN /\ err \in STRING

Shape ==
    /\ mB >= 1 /\ mI + mG <= Cap(mB)
    /\ oP => oB >= 4 /\ oI <= Cap(oB)
    /\ ~oP => oB = 0 /\ oI = 0 /\ cI = 0

NoErr == err = "none"

\* C05 (count level): the cached iterator's counter agrees with the old table
CursorAgrees == oP => cI = oI

\* C04: capacity() >= len()
CapGeLen == mI + mG >= Len
\* C04: room for every element still in the old table plus the insertions needed to move them
Headroom == (oP /\ oI > 0) => mG >= oI + CeilDiv(oI, R)
\* C04, the property's own sentence: capacity()-len() fresh keys go in without panic,
\* allocation or a pending resize at the end (worst case: nothing lands on a tombstone)
RECURSIVE ProbeOK(_, _, _, _)
ProbeOK(k, g, o, p) ==
    \* k inserts left, g growth_left, o old items, p old present
    IF k = 0 THEN TRUE
    ELSE IF g = 0 THEN FALSE
    ELSE LET n == IF p THEN Min(R, o) ELSE 0 IN
         IF 1 + n > g THEN FALSE
         ELSE ProbeOK(k - 1, g - 1 - n, o - n, p /\ o - n > 0)
FreshProbe ==
    LET k == (mI + mG) - Len IN
    /\ k >= 0
    /\ ProbeOK(k, mG, OldLen, oP)
    /\ (k > 0 /\ oP) => k * R >= oI

\* C03: a map never owns more than two tables (structural: two slots); count of live allocations
LiveTables == (IF mB > 1 THEN 1 ELSE 0) + (IF oP THEN 1 ELSE 0)

(***************************************************************************)
(* Per-call contracts, quantified over the call's parameters and evaluated *)
(* in every reachable state.                                               *)
(***************************************************************************)
RuIns == 0..(R + 1)
\* C03: each key-adding call moves min(R, remaining) and frees the old table with its last element
\* C02: ... moves at most R, allocates a table only when no resize is pending
\* C04: ... never lowers capacity()
KeyAddContract(P) ==
    P.err = "none" =>
        /\ oP => (P.oI = oI - Min(R, oI) /\ (P.oI = 0 => ~P.oP))
        /\ OldLen - (IF P.oP THEN P.oI ELSE 0) <= R
        /\ (P.mB # mB => ~oP)
        /\ PCap(P) >= Capacity
KeyAdding ==
    Ok => /\ \A ru \in RuIns : InsertNew_En(ru) => KeyAddContract(InsertNew_Post(ru))
          /\ \A ru \in RuIns : OverwriteOld_En(ru) => KeyAddContract(OverwriteOld_Post(ru))
\* C03: removing the last old element through remove()/drain_filter frees the old table
RemoveFrees == (Ok /\ oP /\ oI > 0) => ~Removed_Post(0, 0, oI).oP
=============================================================================

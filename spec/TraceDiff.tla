------------------------------ MODULE TraceDiff ------------------------------
(***************************************************************************)
(* C17: the same operation history executed by two builds of the crate     *)
(* (debug assertions + overflow checks on / optimised with both off) must  *)
(* yield the same sequence of results, the same (documented) panics and    *)
(* the same contents.  Reads two traces of the same script and compares    *)
(* the observable projection of every line.                                *)
(***************************************************************************)
EXTENDS Integers, Sequences, FiniteSets, SequencesExt, TLC, Json, IOUtils

A == ndJsonDeserialize(IOEnv.TRACE)
B == ndJsonDeserialize(IOEnv.TRACE2)

VARIABLE l
HasF(r, f) == f \in DOMAIN r

\* what a caller can observe of one slot: len, capacity, emptiness, contents
SlotObs(r, withContents) ==
    [s |-> r.s, len |-> r.len, cap |-> r.cap, empty |-> r.empty,
     contents |-> IF withContents /\ r.full = 1 THEN ToSet(r.main) \cup ToSet(r.old) ELSE {}]
\* contents are compared only where both recordings logged them
AllFull(e) == HasF(e, "st") /\ \A i \in DOMAIN e.st : e.st[i].full = 1
StObsW(e, w) == IF HasF(e, "st") THEN {SlotObs(e.st[i], w) : i \in DOMAIN e.st} ELSE {}
StObs(e) == StObsW(e, TRUE)
\* results: everything but the free-text panic message (file/line differ between profiles)
ResObs(e) ==
    IF ~HasF(e, "res") THEN <<>>
    ELSE IF e.res.t = "panic" THEN <<"panic", e.res.class>>
    ELSE <<"ok", [f \in DOMAIN e.res |-> e.res[f]]>>
Field(e, f) == IF HasF(e, f) THEN e[f] ELSE <<>>
Obs(e) == <<e.op, ResObs(e), Field(e, "yield"), Field(e, "cyield"), Field(e, "calls"), Field(e, "obs"),
            Field(e, "hints"), Field(e, "tail"), Field(e, "dbg")>>

Chk(name, cond) == IF cond THEN TRUE ELSE PrintT(<<"MONITOR-FAIL", "C17", name, l, A[l].op>>)

Init == l = 2
Step ==
    /\ l <= Len(A)
    /\ (/\ Chk("same_length", l <= Len(B))
        /\ (l <= Len(B)) =>
            /\ Chk("same_operation", A[l].op = B[l].op)
            /\ (A[l].op = B[l].op) =>
                /\ Chk("same_result", ResObs(A[l]) = ResObs(B[l]))
                /\ Chk("same_len_capacity_contents",
                       LET w == AllFull(A[l]) /\ AllFull(B[l]) IN StObsW(A[l], w) = StObsW(B[l], w))
                /\ Chk("same_observations", Obs(A[l]) = Obs(B[l]))
                /\ Chk("no_profile_dependent_panic", ~(HasF(A[l], "res") /\ A[l].res.t = "panic" /\ A[l].res.class = "other")
                                                     /\ ~(HasF(B[l], "res") /\ B[l].res.t = "panic" /\ B[l].res.class = "other"))) = TRUE
    /\ l' = l + 1
Spec == Init /\ [][Step]_l
Accepted ==
    LET d == TLCGet("stats").diameter IN
    IF d = Len(A) /\ Len(A) = Len(B) THEN TRUE
    ELSE /\ PrintT(<<"MONITOR-FAIL", "C17", "traces_differ_in_length", d + 1, "?">>)
         /\ TRUE
=============================================================================

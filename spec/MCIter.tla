------------------------------- MODULE MCIter -------------------------------
EXTENDS MCGriddle

(***************************************************************************)
(* drain_filter as a *process*: the DrainFilter holds a raw iterator (main  *)
(* iterator + a clone of the cursor taken at creation) across calls of      *)
(* RawTable::remove, which frees the old table when it empties it.  C05's   *)
(* mechanism "the old table is freed only when no live iterator can still   *)
(* step into it" becomes the contract checked in DFNext.  While the         *)
(* DrainFilter is alive the map is mutably borrowed: no other action runs.  *)
(*   df = [on, mainLeft, oldLeft, oldN]  (oldN: the clone's items counter)  *)
(***************************************************************************)
VARIABLE df
dvars == <<M, O, mB, mG, oP, oB, cur, cN, err, df>>
DFOff == [on |-> FALSE, mainLeft |-> {}, oldLeft |-> {}, oldN |-> 0]
DFStart ==
    /\ Ok /\ ~df.on
    /\ df' = [on |-> TRUE, mainLeft |-> KeysOf(M), oldLeft |-> cur, oldN |-> cN]
    /\ UNCHANGED vars
\* next(): the main-table iterator first, then the cursor clone; f(k) = verdict; matching elements
\* are removed through RawTable::remove
DFNext(k, verdict, tomb) ==
    /\ Ok /\ df.on
    /\ IF df.mainLeft # {}
       THEN /\ k \in df.mainLeft
            /\ df' = [df EXCEPT !.mainLeft = @ \ {k}]
            /\ IF verdict THEN (RemoveK_En(k, tomb) /\ Apply(RemoveK_Post(k, tomb))) ELSE (tomb = FALSE /\ UNCHANGED vars)
       ELSE /\ df.oldN > 0
            /\ tomb = FALSE
            /\ IF ~oP THEN \* the clone would read control bytes of a table that has been freed
                     (k \in df.oldLeft /\ Apply(Fail("iterator_steps_into_freed_old_table")) /\ UNCHANGED df)
               ELSE IF df.oldLeft = {} THEN (k \in Key /\ Apply(Fail("iterator_overread")) /\ UNCHANGED df)
               ELSE /\ k \in df.oldLeft
                    /\ df' = [df EXCEPT !.oldLeft = @ \ {k}, !.oldN = @ - 1]
                    /\ IF k \notin KeysOf(O) THEN Apply(Fail("iterator_yields_vacated_bucket"))
                       ELSE IF verdict THEN Apply(RemoveK_Post(k, FALSE)) ELSE UNCHANGED vars
\* exhausted (or dropped: Drop drains the remaining matches first, which is more DFNext steps) / forgotten
DFEnd == /\ df.on /\ df' = DFOff /\ UNCHANGED vars

DFSpecNext ==
    \/ (~df.on /\ Next /\ UNCHANGED df)
    \/ DFStart
    \/ \E k \in Key, v \in BOOLEAN, t \in BOOLEAN : DFNext(k, v, t)
    \/ DFEnd
MCIterSpec == (MCInit /\ df = DFOff) /\ [][DFSpecNext]_dvars
\* the live iterator's view stays exact: what it still has to visit is what is still there and unvisited
DFCoherent ==
    df.on => /\ df.mainLeft \subseteq KeysOf(M)
             /\ (oP => df.oldLeft \subseteq KeysOf(O))
             /\ df.oldN = Cardinality(df.oldLeft)
             /\ (~oP => df.oldN = 0)

=============================================================================

---------------------------- MODULE MCCloneFrom ----------------------------
(***************************************************************************)
(* C07 / C11: clone_from as a multi-step process that a panicking Hash or  *)
(* Clone can leave at any step -- with the one thing Griddle.tla abstracts *)
(* away made explicit: *which hasher an element was placed with*.          *)
(*                                                                         *)
(*   HashMap::clone_from(&mut dst, &src)                                   *)
(*     RawTable::clone_from_with_hasher(dst.table, src.table, src.hasher)  *)
(*        1. drop dst's old table                                          *)
(*        2. hashbrown clone_from of the main table (on unwind the table   *)
(*           is reset: hashbrown's guard + fix D7)                         *)
(*        3. for every element still in src's old table:                   *)
(*              hash it (src.hasher), clone it, insert it                  *)
(*     dst.hash_builder = src.hash_builder     ("only if we successfully   *)
(*                                              cloned all elements")      *)
(* An element is found by a lookup iff it was placed with the hasher the   *)
(* map currently owns.  Hashers are abstract values; dst and src may own   *)
(* different ones.                                                         *)
(*                                                                         *)
(* FixD9 = FALSE: a panic in step 3 just unwinds (the code as found);      *)
(* FixD9 = TRUE:  step 3 runs under a guard that clears the table on       *)
(*                unwind (commit 729f585).                                 *)
(***************************************************************************)
EXTENDS Integers, FiniteSets, TLC

CONSTANTS Keys, Hashers, FixD9

VARIABLES srcMain, srcOld, srcH,   \* the source: keys per table, its hasher (never changes)
          dst,                     \* destination table: set of <<key, hasher it was placed with>>
          dstH,                    \* the hasher the destination owns
          pc,                      \* "idle" | "main" | "carry" | "adopt" | "done" | "panicked"
          todo                     \* keys of src's old table still to be carried
vars == <<srcMain, srcOld, srcH, dst, dstH, pc, todo>>

Init ==
    /\ srcMain \in SUBSET Keys /\ srcOld \in SUBSET Keys /\ srcMain \cap srcOld = {}
    /\ srcH \in Hashers /\ dstH \in Hashers
    /\ \E K \in SUBSET Keys : dst = {<<k, dstH>> : k \in K}      \* a consistent destination
    /\ pc = "idle" /\ todo = {}

Start == pc = "idle" /\ pc' = "main" /\ UNCHANGED <<srcMain, srcOld, srcH, dst, dstH, todo>>

\* step 2: all-or-nothing as far as this model is concerned (a panic resets the table)
CloneMain ==
    /\ pc = "main"
    /\ \/ /\ dst' = {<<k, srcH>> : k \in srcMain} /\ pc' = "carry" /\ todo' = srcOld
       \/ /\ dst' = {} /\ pc' = "panicked" /\ todo' = {}
    /\ UNCHANGED <<srcMain, srcOld, srcH, dstH>>

\* step 3: one element at a time; Hash or Clone may panic before the element is inserted
Carry ==
    /\ pc = "carry"
    /\ IF todo = {} THEN pc' = "adopt" /\ UNCHANGED <<dst, todo>>
       ELSE \E k \in todo :
              \/ /\ dst' = dst \cup {<<k, srcH>>} /\ todo' = todo \ {k} /\ pc' = "carry"
              \/ /\ pc' = "panicked" /\ todo' = {}
                 /\ dst' = IF FixD9 THEN {} ELSE dst
    /\ UNCHANGED <<srcMain, srcOld, srcH, dstH>>

Adopt == pc = "adopt" /\ dstH' = srcH /\ pc' = "done" /\ UNCHANGED <<srcMain, srcOld, srcH, dst, todo>>

Next == Start \/ CloneMain \/ Carry \/ Adopt
Spec == Init /\ [][Next]_vars

\* between public calls (never observed mid-call): every element is where a lookup will look for it
AtRest == pc \in {"idle", "done", "panicked"}
Findable == AtRest => \A e \in dst : e[2] = dstH
\* no key twice (an unfindable element can be inserted a second time -- that is how D9 shows)
NoDup == \A a, b \in dst : a[1] = b[1] => a = b
\* C11: a completed clone_from gives exactly the source's contents
Complete == pc = "done" => {e[1] : e \in dst} = srcMain \cup srcOld
=============================================================================

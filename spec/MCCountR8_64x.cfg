CONSTANTS
  R = 8
  GW = 16
  MaxUsize = 16777215
  ElemSize = 8
  FixD1 = TRUE
  FixD4 = TRUE
  FixD6 = TRUE
  FixD8 = TRUE
  Debug = FALSE
  MaxB = 64
  ArgMode = "boundary"
  InitCaps = {0, 1, 3, 4, 7, 14, 28, 56}
SPECIFICATION MCSpec
CONSTRAINT Bounded
INVARIANTS TypeOK Shape NoErr CursorAgrees CapGeLen Headroom FreshProbe TwoTables KeyAdding RemoveFrees ReserveContract ShrinkContract CloneContract
CHECK_DEADLOCK FALSE

CONSTANTS
  Workers = {1, 2, 3}
  NGm = 4
  NGo = 2
  GWm = 2
  SplitBug = FALSE
SPECIFICATION Spec
INVARIANTS AtMostOnce NoOverlap MainBeforeOld Covered ExactlyOnceAtEnd
PROPERTY Terminates
CHECK_DEADLOCK FALSE

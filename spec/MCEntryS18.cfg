CONSTANTS
  Key = {1, 2, 3, 4}
  Val = {0, 1}
  R = 2
  GW = 4
  MaxUsize = 16777215
  ElemSize = 8
  MaxB = 16
  ResArgs = {0, 2, 6}
  ShrArgs = {0, 3}
  InitCaps = {0}
  Mode = "occ_insert_carries"
SPECIFICATION MCEntrySpec
CONSTRAINT Bounded
INVARIANTS TypeOK HTypeOK Disjoint Cursor Shape NoErr CapGeLen Headroom IterExact HandleCoherent EntryRefines EntryRefinesCount
CHECK_DEADLOCK FALSE

------------------------------ MODULE Hashbrown ------------------------------
(***************************************************************************)
(* Environment model: the parts of hashbrown 0.14.5's raw table that       *)
(* griddle's behaviour depends on, as pure operators over an abstract      *)
(* table  T = [b |-> buckets, i |-> items, g |-> growth_left].             *)
(*                                                                         *)
(*  b = 1 is the unallocated singleton (RawTableInner::NEW);               *)
(*  "lost" capacity  Cap(b) - i - g  is the number of slots that are       *)
(*  neither FULL nor counted in growth_left (DELETED tombstones, plus the  *)
(*  slots hashbrown's clone_from_with_hasher mis-accounts).                *)
(*                                                                         *)
(* Every operator mirrors one function of hashbrown/src/raw/mod.rs; the    *)
(* model is itself on trial in every validated trace (bucket counts and    *)
(* capacities are logged from the real tables).                            *)
(***************************************************************************)
EXTENDS Integers

CONSTANTS GW,        \* Group::WIDTH: 16 (SSE2) or 8 (generic / Miri)
          MaxUsize,  \* usize::MAX of the modelled machine
          ElemSize   \* size_of::<T>() (only used for the layout limit)

Min(a, b) == IF a < b THEN a ELSE b
Max(a, b) == IF a > b THEN a ELSE b
CeilDiv(a, d) == (a + d - 1) \div d

\* bucket_mask_to_capacity
Cap(b) == IF b <= 8 THEN b - 1 ELSE (b \div 8) * 7

RECURSIVE NextPow2From(_, _)
NextPow2From(p, n) == IF p >= n THEN p ELSE NextPow2From(2 * p, n)
NextPow2(n) == NextPow2From(1, n)

Overflow == -1   \* "None"/CapacityOverflow marker for bucket computations

\* capacity_to_buckets (cap > 0): None when cap*8 overflows usize
C2B(c) == IF c < 4 THEN 4
          ELSE IF c < 8 THEN 8
          ELSE IF c * 8 > MaxUsize THEN Overflow
          ELSE NextPow2((c * 8) \div 7)

\* calculate_layout_for: size must not exceed isize::MAX
LayoutOK(b) == b * ElemSize + b + GW <= MaxUsize \div 2

\* buckets of (try_)with_capacity(c); Overflow if the request cannot be represented
WithCapB(c) == IF c = 0 THEN 1
               ELSE LET b == C2B(c) IN IF b = Overflow \/ ~LayoutOK(b) THEN Overflow ELSE b

Tbl(b, i, g) == [b |-> b, i |-> i, g |-> g]
NewTbl == Tbl(1, 0, 0)
FreshTbl(b) == Tbl(b, 0, Cap(b))
Capacity(T) == T.i + T.g
Lost(T) == Cap(T.b) - T.i - T.g
Allocated(T) == T.b > 1

\* insert_no_grow. Contract (unchecked by hashbrown in release): an EMPTY or DELETED slot
\* exists on the probe path and, if it is EMPTY, growth_left > 0.
InsNoGrowOK(T, reuse) == IF reuse THEN Lost(T) > 0 ELSE T.g > 0
InsNoGrow(T, reuse) == Tbl(T.b, T.i + 1, IF reuse THEN T.g ELSE T.g - 1)

\* n consecutive insert_no_grow calls of which ru land on DELETED slots
InsNoGrowN(T, n, ru) == Tbl(T.b, T.i + n, T.g - (n - ru))
InsNoGrowNOK(T, n, ru) == ru <= n /\ ru <= Lost(T) /\ (n - ru) <= T.g

\* erase / remove of one element. tomb: the control byte becomes DELETED.
\* Necessary condition for DELETED: a run of >= GW non-EMPTY control bytes around the slot.
TombPossible(T) == T.b >= GW /\ T.i + Lost(T) >= GW
Erase(T, tomb) == Tbl(T.b, T.i - 1, IF tomb THEN T.g ELSE T.g + 1)
\* ne elements whose byte becomes EMPTY, nt whose byte becomes DELETED
EraseN(T, ne, nt) == Tbl(T.b, T.i - ne - nt, T.g + ne)

\* resize_inner(capacity): fresh table, every tombstone gone
ResizeB(c) == WithCapB(c)
Resize(T, c) == LET b == ResizeB(c) IN Tbl(b, T.i, Cap(b) - T.i)

\* reserve(additional): returns the new table, or "overflow"
ReserveOverflows(T, n) ==
    /\ n > T.g
    /\ \/ T.i + n > MaxUsize
       \/ /\ T.i + n > Cap(T.b) \div 2
          /\ ResizeB(Max(T.i + n, Cap(T.b) + 1)) = Overflow
Reserve(T, n) ==
    IF n <= T.g THEN T
    ELSE IF T.i + n <= Cap(T.b) \div 2 THEN Tbl(T.b, T.i, Cap(T.b) - T.i)   \* rehash_in_place
    ELSE Resize(T, Max(T.i + n, Cap(T.b) + 1))
ReserveAllocates(T, n) == n > T.g /\ T.i + n > Cap(T.b) \div 2

\* growing insert (RawTable::insert): reserve(1) only if growth_left = 0 and the slot is EMPTY
InsGrowAllocates(T, reuse) == T.g = 0 /\ ~reuse /\ ReserveAllocates(T, 1)
InsGrow(T, reuse) == IF T.g = 0 /\ ~reuse THEN InsNoGrow(Reserve(T, 1), FALSE)
                     ELSE InsNoGrow(T, reuse)

\* n growing inserts, never landing on a tombstone (reuse is layout luck; see InsGrowNSet)
RECURSIVE InsGrowN(_, _)
InsGrowN(T, n) == IF n = 0 THEN T ELSE InsGrowN(InsGrow(T, FALSE), n - 1)
\* ... of which the first ru land on tombstones
RECURSIVE InsGrowNR(_, _, _)
InsGrowNR(T, n, ru) ==
    IF n = 0 THEN T
    ELSE IF ru > 0 /\ Lost(T) > 0 THEN InsGrowNR(InsGrow(T, TRUE), n - 1, ru - 1)
    ELSE InsGrowNR(InsGrow(T, FALSE), n - 1, 0)

\* shrink_to(min_size)
ShrinkTo(T, m) ==
    LET ms == Max(T.i, m) IN
    IF ms = 0 THEN NewTbl
    ELSE LET nb == C2B(ms) IN
         IF nb = Overflow \/ nb >= T.b THEN T
         ELSE IF T.i = 0 THEN FreshTbl(nb)
         ELSE Tbl(nb, T.i, Cap(nb) - T.i)

\* clear(): an empty table is left untouched (tombstones survive)
Clear(T) == IF T.i = 0 THEN T ELSE Tbl(T.b, 0, Cap(T.b))
\* clear_no_drop (RawDrain's drop)
ClearNoDrop(T) == Tbl(T.b, 0, Cap(T.b))

\* clone(): same bucket count and control bytes
Clone(T) == IF T.b = 1 THEN NewTbl ELSE T
\* clone_from_with_hasher(dst, src)
CloneFromWithHasher(D, S) ==
    IF D.b # S.b /\ Cap(D.b) >= S.i
    THEN LET C == Clear(D) IN Tbl(C.b, S.i, C.g - S.i)
    ELSE IF S.b = 1 THEN NewTbl ELSE S
\* hashbrown 0.14.5 subtracts source.items from growth_left after a clear() that skips empty
\* tables: with tombstones left in an empty destination the subtraction can underflow.
CloneFromUnderflows(D, S) == D.b # S.b /\ Cap(D.b) >= S.i /\ Clear(D).g < S.i

=============================================================================

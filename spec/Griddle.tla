------------------------------- MODULE Griddle -------------------------------
(***************************************************************************)
(* Implementation-level specification of griddle's raw table at the level  *)
(* of *contents*: which element lives in which of the two hashbrown tables,*)
(* and what the cached old-table iterator ("cursor") still expects to      *)
(* yield.  One action per critical section of src/raw/mod.rs + the public  *)
(* wrappers of src/map.rs that route to them; the nondeterminism the code  *)
(* resolves by hashing is an explicit parameter (which elements a carry    *)
(* moves, tombstone or not, how many relocations reuse a tombstone).       *)
(*                                                                         *)
(*   M, O     main / old table contents: sets of <<key, value>>            *)
(*   mB, mG   main buckets, growth_left          oP, oB  old present/buckets*)
(*   cur, cN  cursor: keys it would still yield, and its items counter     *)
(*   err      first hashbrown raw-API contract breach / undocumented panic *)
(*                                                                         *)
(* Same functional style as GriddleCount: A(p) == A_En(p) /\ Apply(A_Post) *)
(* so that refinement to RefMap and to GriddleCount are per-state          *)
(* obligations quantified over the parameters.                             *)
(***************************************************************************)
EXTENDS Integers, FiniteSets, TLC

CONSTANTS Key, Val, R, GW, MaxUsize, ElemSize

VARIABLES M, O, mB, mG, oP, oB, cur, cN, err
vars == <<M, O, mB, mG, oP, oB, cur, cN, err>>

HB == INSTANCE Hashbrown
Cap(b) == HB!Cap(b)
Min(a, b) == HB!Min(a, b)
Max(a, b) == HB!Max(a, b)
CeilDiv(a, d) == HB!CeilDiv(a, d)

KeysOf(E) == {e[1] : e \in E}
ValAt(E, k) == (CHOOSE e \in E : e[1] = k)[2]
Drop(E, K) == {e \in E : e[1] \notin K}
Pick(E, K) == {e \in E : e[1] \in K}
Ok == err = "none"
mI == Cardinality(M)
oI == Cardinality(O)
Len == mI + oI
Main == HB!Tbl(mB, mI, mG)
All == M \cup O

St == [M |-> M, O |-> O, mB |-> mB, mG |-> mG, oP |-> oP, oB |-> oB, cur |-> cur, cN |-> cN, err |-> err]
Fail(e) == [St EXCEPT !.err = e]
Apply(P) == /\ M' = P.M /\ O' = P.O /\ mB' = P.mB /\ mG' = P.mG /\ oP' = P.oP /\ oB' = P.oB
            /\ cur' = P.cur /\ cN' = P.cN /\ err' = P.err
NoOldRec(P) == [P EXCEPT !.O = {}, !.oP = FALSE, !.oB = 0, !.cur = {}, !.cN = 0]
WithMain(P, T, E) == [P EXCEPT !.M = E, !.mB = T.b, !.mG = T.g]

InitWith(c) == /\ M = {} /\ O = {} /\ mB = HB!WithCapB(c) /\ mG = Cap(HB!WithCapB(c))
               /\ oP = FALSE /\ oB = 0 /\ cur = {} /\ cN = 0 /\ err = "none"

(***************************************************************************)
(* carry(): up to R times { cursor.next(); old.remove; hash; main.insert_no_grow }  *)
(* from state P, moving exactly the elements with keys `mv`, `ru` of the   *)
(* insertions (plus `extra` insertions made just before) landing on        *)
(* tombstones.  Unchecked contracts of hashbrown become err.               *)
(***************************************************************************)
CarrySets(P) == {S \in SUBSET P.cur : Cardinality(S) = Min(R, Min(P.cN, Cardinality(P.cur)))}
Carry(P, mv, extra, ru) ==
    LET n == Min(R, P.cN)
        T == HB!Tbl(P.mB, Cardinality(P.M), P.mG)
    IN
    IF n > Cardinality(P.cur) THEN [P EXCEPT !.err = "cursor_overread"]      \* next() trusts its counter
    ELSE IF mv \notin SUBSET KeysOf(P.O) THEN [P EXCEPT !.err = "cursor_yields_vacated_bucket"]
    ELSE IF ~HB!InsNoGrowNOK(T, n, ru) THEN [P EXCEPT !.err = "insert_no_grow_full"]
    ELSE LET T2 == HB!InsNoGrowN(T, n, ru)
             O2 == Drop(P.O, mv)
             early == P.cN < R                \* the cursor returned None inside the loop
             Q == [P EXCEPT !.M = P.M \cup Pick(P.O, mv), !.mG = T2.g, !.O = O2,
                            !.cur = P.cur \ mv, !.cN = P.cN - n]
         IN IF early \/ O2 = {} THEN NoOldRec(Q) ELSE Q

(***************************************************************************)
(* C07: carry() interrupted by a panic in the user's Hash: the elements    *)
(* `done` were moved completely; `victim` had already been taken out of    *)
(* the old table (cursor.next + old.remove) when its hash panicked, so it  *)
(* is dropped by the unwinding.  The loop is left by the panic: an old     *)
(* table emptied this way is *not* freed.                                  *)
(***************************************************************************)
CarryFaultSets(P) ==
    {<<d, v>> \in (SUBSET P.cur) \X P.cur :
        /\ v \notin d
        /\ Cardinality(d) < Min(R, Min(P.cN, Cardinality(P.cur)))}
CarryFault(P, done, victim, ru) ==
    LET n == Cardinality(done)
        T == HB!Tbl(P.mB, Cardinality(P.M), P.mG)
    IN
    IF ~HB!InsNoGrowNOK(T, n, ru) THEN [P EXCEPT !.err = "insert_no_grow_full"]
    ELSE LET T2 == HB!InsNoGrowN(T, n, ru) IN
         [P EXCEPT !.M = P.M \cup Pick(P.O, done), !.mG = T2.g, !.O = Drop(P.O, done \cup {victim}),
                   !.cur = P.cur \ (done \cup {victim}), !.cN = P.cN - n - 1]

(***************************************************************************)
(* HashMap::insert(k, v)                                                   *)
(***************************************************************************)
GrowWant(i, extra) == i + CeilDiv(i, R) + Max(extra, CeilDiv(i, R))
GrowB(i, extra) == IF GrowWant(i, extra) > MaxUsize THEN HB!Overflow ELSE HB!WithCapB(GrowWant(i, extra))
\* try_grow(extra): new empty main table; the previous main becomes the old table if non-empty
Grown(P, extra) ==
    LET nb == GrowB(Cardinality(P.M), extra) IN
    IF P.M = {}
    THEN [P EXCEPT !.mB = nb, !.mG = Cap(nb)]
    ELSE [P EXCEPT !.M = {}, !.mB = nb, !.mG = Cap(nb), !.O = P.M, !.oP = TRUE, !.oB = P.mB,
                   !.cur = KeysOf(P.M), !.cN = Cardinality(P.M)]

\* key absent: RawTable::insert
InsertNew_Post(k, v, mv, ru) ==
    IF mG = 0
    THEN IF oP THEN Fail("assert_leftovers_none")
         ELSE IF GrowB(mI, 1) = HB!Overflow THEN St                \* documented capacity-overflow panic
         ELSE LET G == Grown(St, 1)
                  G1 == [G EXCEPT !.M = {<<k, v>>}, !.mG = G.mG - 1]
              IN IF G.oP THEN Carry(G1, mv, 1, 0) ELSE G1
    ELSE LET reuse1 == ru > 0
             T1 == HB!InsNoGrow(Main, reuse1)
             P1 == [St EXCEPT !.M = M \cup {<<k, v>>}, !.mG = T1.g]
         IN IF ~HB!InsNoGrowOK(Main, reuse1) THEN Fail("insert_no_grow_full")
            ELSE IF oP THEN Carry(P1, mv, 1, IF reuse1 THEN ru - 1 ELSE 0) ELSE P1
InsertNew_En(k, v, mv, ru) ==
    /\ Ok /\ k \notin KeysOf(All)
    /\ IF mG = 0 THEN (ru = 0 /\ (IF ~oP /\ GrowB(mI, 1) # HB!Overflow /\ M # {}
                                  THEN mv \in CarrySets(Grown(St, 1)) ELSE mv = {}))
       ELSE /\ (IF oP THEN mv \in CarrySets(St) ELSE mv = {})
            /\ ru <= Min(HB!Lost(Main), 1 + Cardinality(mv))
            /\ (ru > 0 \/ mG > 0)

\* key in main: value replaced in place
OverwriteMain_Post(k, v) == [St EXCEPT !.M = Drop(M, {k}) \cup {<<k, v>>}]
\* key in old: value replaced in place, then carry()
OverwriteOld_Post(k, v, mv, ru) ==
    Carry([St EXCEPT !.O = Drop(O, {k}) \cup {<<k, v>>}], mv, 0, ru)
OverwriteOld_En(k, v, mv, ru) ==
    /\ Ok /\ k \in KeysOf(O) /\ mv \in CarrySets(St) /\ ru <= Min(HB!Lost(Main), Cardinality(mv))

\* the same calls interrupted by a Hash panic during their carry (C07)
\* (ru = how many of the insertions made before the panic -- the new key's and the relocations' --
\* landed on tombstones)
F_InsertNew_Post(k, v, done, victim, ru) ==
    IF mG = 0
    THEN LET G == Grown(St, 1) IN CarryFault([G EXCEPT !.M = {<<k, v>>}, !.mG = G.mG - 1], done, victim, 0)
    ELSE LET reuse1 == ru > 0
             T1 == HB!InsNoGrow(Main, reuse1)
         IN CarryFault([St EXCEPT !.M = M \cup {<<k, v>>}, !.mG = T1.g], done, victim, IF reuse1 THEN ru - 1 ELSE 0)
F_InsertNew_En(k, v, done, victim, ru) ==
    /\ Ok /\ k \notin KeysOf(All)
    /\ IF mG = 0 THEN (ru = 0 /\ ~oP /\ M # {} /\ GrowB(mI, 1) # HB!Overflow /\ <<done, victim>> \in CarryFaultSets(Grown(St, 1)))
       ELSE (oP /\ <<done, victim>> \in CarryFaultSets(St) /\ ru <= Min(HB!Lost(Main), 1 + Cardinality(done)) /\ (ru > 0 \/ mG > 0))
F_OverwriteOld_Post(k, v, done, victim, ru) ==
    CarryFault([St EXCEPT !.O = Drop(O, {k}) \cup {<<k, v>>}], done, victim, ru)
F_OverwriteOld_En(k, v, done, victim, ru) ==
    Ok /\ k \in KeysOf(O) /\ <<done, victim>> \in CarryFaultSets(St) /\ ru <= Min(HB!Lost(Main), Cardinality(done))

(***************************************************************************)
(* removal paths                                                           *)
(***************************************************************************)
\* RawTable::remove (remove, remove_entry, OccupiedEntry::remove*, drain_filter, take):
\* frees the old table when it empties it
RemoveK_Post(k, tomb) ==
    IF k \in KeysOf(M) THEN [St EXCEPT !.M = Drop(M, {k}), !.mG = IF tomb THEN mG ELSE mG + 1]
    ELSE IF k \in KeysOf(O)
    THEN LET c2 == cur \ {k}
             n2 == IF k \in cur THEN cN - 1 ELSE cN      \* reflect_remove
             Q == [St EXCEPT !.O = Drop(O, {k}), !.cur = c2, !.cN = n2]
         IN IF Q.O = {} THEN NoOldRec(Q) ELSE Q
    ELSE St
RemoveK_En(k, tomb) == Ok /\ (tomb => (k \in KeysOf(M) /\ HB!TombPossible(Main)))

\* RawTable::erase (retain) and replace_bucket_with(.., None) (replace_entry_with): never free
EraseSet_Post(S, nt) ==
    LET inM == KeysOf(M) \cap S
        inO == KeysOf(O) \cap S
    IN [St EXCEPT !.M = Drop(M, S), !.mG = mG + Cardinality(inM) - nt,
                  !.O = Drop(O, S), !.cur = cur \ S, !.cN = cN - Cardinality(cur \cap inO)]
EraseSet_En(S, nt) == /\ Ok /\ nt <= Cardinality(KeysOf(M) \cap S) /\ (nt > 0 => HB!TombPossible(Main))
\* drain_filter removing exactly S
RemoveSet_Post(S, nt) ==
    LET Q == EraseSet_Post(S, nt) IN
    IF oP /\ (KeysOf(O) \cap S) # {} /\ Q.O = {} THEN NoOldRec(Q) ELSE Q

Clear_Post == NoOldRec(WithMain(St, HB!Clear(Main), {}))
Drain_Post(forgotten) == NoOldRec(WithMain(St, IF forgotten THEN HB!NewTbl ELSE HB!ClearNoDrop(Main), {}))

(***************************************************************************)
(* reserve / try_reserve / shrink_to                                       *)
(***************************************************************************)
ReservePath(n) ==
    IF oI + n > MaxUsize THEN "overflow"
    ELSE IF mG > oI + n THEN "fast"
    ELSE IF GrowB(Len, n) = HB!Overflow THEN "overflow" ELSE "grow"
Reserve_Post(n, ru) ==
    LET p == ReservePath(n) IN
    IF p = "fast" \/ (p = "overflow" /\ oI + n > MaxUsize) THEN St
    ELSE IF oP /\ (cN # Cardinality(cur) \/ cur # KeysOf(O)) THEN Fail("cursor_disagrees")
    ELSE LET T1 == IF oP THEN HB!InsGrowNR(Main, cN, ru) ELSE Main
             P1 == NoOldRec(WithMain(St, T1, All))           \* carry_all()
         IN IF p = "overflow" THEN P1 ELSE Grown(P1, n)
\* (carry_all() runs before the new size is found to overflow, so relocations may reuse tombstones on that path too)
Reserve_En(n, ru) == Ok /\ ru <= (IF oP /\ ReservePath(n) \in {"grow", "overflow"} /\ oI + n <= MaxUsize
                                  THEN Min(cN, HB!Lost(Main)) ELSE 0)

\* reserve's carry_all() interrupted by a Hash panic: `done` moved (growing inserts), `victim` lost,
\* the rest stays in the old table, no new table is installed
F_Reserve_Post(done, victim, ru) ==
    LET T1 == HB!InsGrowNR(Main, Cardinality(done), ru) IN
    [St EXCEPT !.M = M \cup Pick(O, done), !.mB = T1.b, !.mG = T1.g, !.O = Drop(O, done \cup {victim}),
               !.cur = cur \ (done \cup {victim}), !.cN = cN - Cardinality(done) - 1]
F_Reserve_En(n, done, victim, ru) ==
    /\ Ok /\ oP /\ ReservePath(n) = "grow"
    /\ done \subseteq cur /\ victim \in cur \ done /\ cN = Cardinality(cur)
    /\ ru <= Min(HB!Lost(Main), Cardinality(done))

ShrinkNeed == mI + (IF oP THEN oI + CeilDiv(oI, R) ELSE 0)
ShrinkTo_Post(m) ==
    LET T == HB!ShrinkTo(Main, Max(ShrinkNeed, m))
        Q == WithMain(St, T, M)
    IN IF oP /\ O = {} THEN NoOldRec(Q) ELSE Q

(***************************************************************************)
(* clone / clone_from (RawTable::clone_with_hasher, clone_from_with_hasher) *)
(* The result is always an unsplit map holding every element of the source: *)
(* the main table is cloned bucket for bucket (hashbrown), then the        *)
(* elements still in the old table are inserted with growing inserts.      *)
(***************************************************************************)
CursorBad == oP /\ (cN # Cardinality(cur) \/ cur # KeysOf(O))
Clone_En(ru) == Ok /\ ru <= (IF oP /\ ~CursorBad THEN Min(cN, HB!Lost(Main)) ELSE 0)
Clone_Post(ru) ==
    IF CursorBad THEN Fail("cursor_disagrees")
    ELSE NoOldRec(WithMain(St, IF oP THEN HB!InsGrowNR(HB!Clone(Main), cN, ru) ELSE HB!Clone(Main), All))
\* dst.clone_from(self), D = the destination's main table (its old table, if any, is dropped first;
\* an empty destination is reset to a tombstone-free one before hashbrown's clone_from: fix D6)
CloneFromDest(D) == IF D.i = 0 THEN HB!ClearNoDrop(D) ELSE D
CloneFrom_En(D, ru) == Ok /\ ru <= (IF oP /\ ~CursorBad THEN cN ELSE 0)
CloneFrom_Post(D, ru) ==
    IF CursorBad THEN Fail("cursor_disagrees")
    ELSE IF HB!CloneFromUnderflows(CloneFromDest(D), Main) THEN Fail("hb_clone_from_growth_left_underflow")
    ELSE NoOldRec(WithMain(St, HB!InsGrowNR(HB!CloneFromWithHasher(CloneFromDest(D), Main), IF oP THEN cN ELSE 0, ru), All))

(***************************************************************************)
(* C07: whole-table calls interrupted by a panicking predicate.            *)
(*   retain: the elements rejected before the panic were erased (never     *)
(*           frees the old table); the element handed to the panicking     *)
(*           call is untouched.                                            *)
(*   drain_filter: the elements matched before the panic were removed      *)
(*           through RawTable::remove (frees an emptied old table); the    *)
(*           DrainFilter's Drop then runs the predicate over the rest.     *)
(* Both are EraseSet_Post / RemoveSet_Post of the subset processed so far: *)
(* the interruption adds no behaviour of its own, which is the claim.      *)
(***************************************************************************)
F_Retain_Post(S, nt) == EraseSet_Post(S, nt)
F_DrainFilter_Post(S, nt) == RemoveSet_Post(S, nt)

(***************************************************************************)
(* Invariants                                                              *)
(***************************************************************************)
TypeOK ==
    /\ M \subseteq Key \X Val /\ O \subseteq Key \X Val
    /\ mB \in Nat /\ mG \in Nat /\ oB \in Nat /\ cN \in Nat /\ cur \subseteq Key
    /\ oP \in BOOLEAN /\ err \in STRING
\* C01: a key lives in at most one place
Disjoint == /\ KeysOf(M) \cap KeysOf(O) = {}
            /\ Cardinality(KeysOf(M)) = mI /\ Cardinality(KeysOf(O)) = oI
\* C05: the cached iterator agrees exactly with the elements still in the old table
Cursor == /\ oP => (cur = KeysOf(O) /\ cN = oI)
          /\ ~oP => (O = {} /\ cur = {} /\ cN = 0 /\ oB = 0)
Shape == mB >= 1 /\ mI + mG <= Cap(mB) /\ (oP => oI <= Cap(oB))
NoErr == err = "none"
CapGeLen == mI + mG >= Len
Headroom == (oP /\ oI > 0) => mG >= oI + CeilDiv(oI, R)

\* C08: what iter() (main iterator chained with a clone of the cursor) yields, and its exact length
IterYield == KeysOf(M) \cup cur
IterExact == IterYield = KeysOf(All) /\ mI + cN = Len
=============================================================================

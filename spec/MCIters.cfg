CONSTANTS
  Key = {1, 2, 3, 4}
  Val = {0}
  R = 2
  GW = 4
  MaxUsize = 16777215
  ElemSize = 8
  MaxB = 16
  ResArgs = {0, 2, 6}
  ShrArgs = {0, 3}
  InitCaps = {0}
  Mode = "tree"
SPECIFICATION MCItersSpec
CONSTRAINT Bounded
INVARIANTS TypeOK Disjoint Cursor Shape NoErr CapGeLen Headroom IterExact ItExact CursorAtRest RetainCoherent
CHECK_DEADLOCK FALSE

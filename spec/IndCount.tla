------------------------------ MODULE IndCount ------------------------------
(***************************************************************************)
(* Unbounded-size inductive argument for C04 (headroom), for Apalache.     *)
(*                                                                         *)
(* Integer-only abstraction of GriddleCount: the main table is             *)
(*   (cap = Cap(buckets), mI items, mG growth_left),  the old table        *)
(*   (oP present, oI items).  hashbrown's power-of-two rounding enters     *)
(* only through the lemma  Cap(CapToBuckets(c)) >= c  (checked by TLC for  *)
(* c <= 4096 in MCCount!CapLemma and observed in every strict trace): a    *)
(* newly allocated table has *some* capacity >= the request.               *)
(*                                                                         *)
(* IndInv is inductive:  Init => IndInv  and  IndInv /\ Next => IndInv'.   *)
(* It contains the headroom property, capacity() >= len(), and that the    *)
(* `assert!(leftovers.is_none())` in insert can never fire.                *)
(***************************************************************************)
EXTENDS Integers

CONSTANT
    \* @type: Int;
    R

VARIABLES
    \* @type: Int;
    cap,
    \* @type: Int;
    mI,
    \* @type: Int;
    mG,
    \* @type: Bool;
    oP,
    \* @type: Int;
    oI,
    \* @type: Bool;
    assertFailed

CInit == R = 8

CeilDivR(x) == (x + R - 1) \div R
MinR(x) == IF x < R THEN x ELSE R
Max(a, b) == IF a > b THEN a ELSE b

Init ==
    /\ cap \in {0, 3, 7, 14, 28}
    /\ mI = 0 /\ mG = cap /\ oP = FALSE /\ oI = 0 /\ assertFailed = FALSE

\* carry after an insertion into main (old present): moves n = min(R, oI); frees when exhausted
Carry(n) ==
    /\ mI' = mI + 1 + n
    /\ mG' = mG - 1 - n
    /\ oI' = oI - n
    /\ oP' = (oI - n > 0)

InsertNoGrow ==
    /\ mG > 0
    /\ IF oP THEN Carry(MinR(oI))
       ELSE mI' = mI + 1 /\ mG' = mG - 1 /\ UNCHANGED <<oP, oI>>
    /\ UNCHANGED <<cap, assertFailed>>

\* capacity() == len(): assert!(leftovers.is_none()); grow(1); insert; carry
InsertGrow ==
    /\ mG = 0
    /\ IF oP
       THEN assertFailed' = TRUE /\ UNCHANGED <<cap, mI, mG, oP, oI>>
       ELSE \E c \in Int :
              LET ins == CeilDivR(mI)
                  n == MinR(mI)
              IN /\ c >= mI + ins + Max(1, ins)          \* Cap(CapToBuckets(want)) >= want
                 /\ cap' = c
                 /\ mI' = 1 + n
                 /\ mG' = c - 1 - n
                 /\ oI' = mI - n
                 /\ oP' = (mI - n > 0)
                 /\ UNCHANGED assertFailed

\* HashMap::insert overwriting an element that is still in the old table: carry only
OverwriteOld ==
    /\ oP /\ oI > 0
    /\ LET n == MinR(oI) IN
       /\ mI' = mI + n /\ mG' = mG - n /\ oI' = oI - n /\ oP' = (oI - n > 0)
    /\ UNCHANGED <<cap, assertFailed>>

\* removals: ne main elements whose slot becomes EMPTY, nt that leave a tombstone, no old elements;
\* `frees` = the path is RawTable::remove (frees an emptied old table) rather than erase
Remove ==
    \E ne \in Int, nt \in Int, no \in Int, frees \in BOOLEAN :
        /\ ne >= 0 /\ nt >= 0 /\ no >= 0 /\ ne + nt <= mI /\ no <= oI
        /\ mI' = mI - ne - nt
        /\ mG' = mG + ne
        /\ oI' = oI - no
        /\ oP' = (oP /\ ~(frees /\ no > 0 /\ oI - no = 0))
        /\ UNCHANGED <<cap, assertFailed>>

\* clear / drain: old table dropped, main emptied (tombstones may survive a clear of an empty table)
Clear ==
    \E g \in Int :
        /\ g >= mG /\ g <= cap
        /\ mI' = 0 /\ mG' = g /\ oP' = FALSE /\ oI' = 0
        /\ UNCHANGED <<cap, assertFailed>>

\* reserve(n): fast path (nothing changes) or carry_all + grow(n)
ReserveSlow ==
    \E n \in Int, c \in Int :
        /\ n >= 0
        /\ ~(mG > oI + n)
        /\ LET L == mI + oI
               ins == CeilDivR(L)
           IN /\ c >= L + ins + Max(n, ins)
              /\ cap' = c /\ mI' = 0 /\ mG' = c
              /\ oP' = (L > 0) /\ oI' = L
        /\ UNCHANGED assertFailed

\* shrink_to(m): an emptied old table is dropped first; the table is either left alone or
\* re-allocated with some capacity >= max(need, m), all tombstones gone
ShrinkTo ==
    \E m \in Int, c \in Int, shrinks \in BOOLEAN :
        LET stillOld == oP /\ oI > 0
            need == mI + (IF stillOld THEN oI + CeilDivR(oI) ELSE 0)
        IN
        /\ m >= 0
        /\ oP' = stillOld /\ oI' = oI
        /\ IF shrinks
           THEN /\ c >= Max(need, m) /\ c <= cap
                /\ cap' = c /\ mG' = c - mI /\ mI' = mI
           ELSE UNCHANGED <<cap, mI, mG>>
        /\ UNCHANGED assertFailed

Next == InsertNoGrow \/ InsertGrow \/ OverwriteOld \/ Remove \/ Clear \/ ReserveSlow \/ ShrinkTo

\* ---- the inductive invariant ----
IndInv ==
    /\ cap >= 0 /\ mI >= 0 /\ mG >= 0 /\ oI >= 0
    /\ mI + mG <= cap
    /\ (~oP => oI = 0)
    /\ ~assertFailed
    \* C04 headroom: room for every element still in the old table plus the inserts that move them
    /\ ((oP /\ oI > 0) => mG >= oI + CeilDivR(oI))
    \* an old table that is present-but-empty never coexists with a full main table
    /\ (oP => mG >= 1)

\* consequences (checked as ordinary invariants of the inductive hypothesis)
CapGeLen == mI + mG >= mI + oI
IndInit ==
    /\ cap \in Int /\ mI \in Int /\ mG \in Int /\ oI \in Int /\ oP \in BOOLEAN /\ assertFailed \in BOOLEAN
    /\ IndInv
=============================================================================

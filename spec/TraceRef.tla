------------------------------ MODULE TraceRef ------------------------------
(***************************************************************************)
(* Property-level trace specification.                                     *)
(*                                                                         *)
(* Reads an ndjson trace recorded from the real crate (one event per       *)
(* public call: operation, arguments, result, hook snapshot of every live  *)
(* slot, measured cost, drop ledger) and judges every event against        *)
(*   - the reference semantics of RefMap (results, contents, ownership),   *)
(*   - the per-property monitors named below.                              *)
(* The state is re-synchronised to the *observed* snapshot after every     *)
(* event, so one breach does not cascade and the rest of the trace is      *)
(* still judged.  A failed monitor is reported as a line                   *)
(*     <<"MONITOR-FAIL", property ids, monitor, line, op>>                 *)
(* and never blocks the behaviour; acceptance = every line consumed.       *)
(***************************************************************************)
EXTENDS RefMap, Json, IOUtils

Rec == ndJsonDeserialize(IOEnv.TRACE)
Hdr == Rec[1]
R == Hdr.R

VARIABLES l,          \* next line of the trace
          snap,       \* hook snapshots (the "st" array) after the previous event
          leakIds,    \* object ids legitimately leaked by mem::forget of an iterator
          leakAllocs, \* table allocations legitimately leaked the same way
          ctx         \* attribution context: [postFault, baseline, cloned]
vars == <<l, snap, leakIds, leakAllocs, ctx>>

HasF(r, f) == f \in DOMAIN r
CeilDiv(a, d) == (a + d - 1) \div d
MinI(a, b) == IF a < b THEN a ELSE b

SlotIdx(st, s) == {i \in DOMAIN st : st[i].s = s}
Alive(st, s) == SlotIdx(st, s) # {}
SlotR(st, s) == st[CHOOSE i \in SlotIdx(st, s) : TRUE]
SlotsOf(st) == {st[i].s : i \in DOMAIN st}
IsFull(r) == r.full = 1
MainE(r) == ToSet(r.main)
OldE(r) == ToSet(r.old)
Cont(r) == MainE(r) \cup OldE(r)
IsSplit(r) == r.sp = 1
Tables(r) == (IF r.mB > 1 THEN 1 ELSE 0) + r.sp

\* context of a failure, for attribution: "postfault" = after an injected panic in this segment (C07:
\* "later operations behave normally"), "baseline" = fault-free control segment, "cloned" = on a map that
\* is the product of clone/clone_from in this run (C11: the clone behaves like a map of its own)
CtxOf(e) ==
    (IF ctx.baseline THEN "baseline " ELSE "") \o (IF ctx.postFault THEN "postfault " ELSE "")
    \o (IF "s" \in DOMAIN e /\ (e.s \in ctx.cloned \/ ("d" \in DOMAIN e /\ e.d \in ctx.cloned)) THEN "cloned" ELSE "")
Chk(props, name, e, cond) == IF cond THEN TRUE ELSE PrintT(<<"MONITOR-FAIL", props, name, l, e.op, CtxOf(e)>>)

Panicked(e) == e.res.t = "panic"
\* table allocations made by the call (not measurable while rayon worker threads are alive)
AL(e) == IF HasF(e, "par") THEN 0 ELSE e.cost.al
Faulted(e) == HasF(e, "fault")

(***************************************************************************)
(* State monitors: evaluated on the snapshot of every live slot after      *)
(* every event.                                                            *)
(***************************************************************************)
SlotMon(e, r) ==
    /\ Chk("C04", "capacity_ge_len", e, r.cap >= r.len)
    /\ Chk("C01", "len_is_sum", e, r.len = r.mI + r.oI /\ r.cap = r.mC /\ ((r.empty = 1) <=> (r.len = 0)))
    /\ Chk("C04", "headroom", e, (IsSplit(r) /\ r.oI > 0) => (r.mC - r.mI >= r.oI + CeilDiv(r.oI, R)))
    /\ Chk("C05", "cursor_count", e, IsSplit(r) => r.cI = r.oI)
    /\ Chk("C03", "unsplit_has_no_old", e, ~IsSplit(r) => (r.oI = 0 /\ r.oB = 0 /\ r.cI = 0))
    /\ IsFull(r) =>
        /\ Chk("C01", "tables_disjoint", e,
               /\ WellFormed(Cont(r))
               /\ Cardinality(MainE(r)) = r.mI /\ Len(r.main) = r.mI
               /\ Cardinality(OldE(r)) = r.oI /\ Len(r.old) = r.oI)
        /\ Chk("C05", "cursor_set", e,
               (IsSplit(r) /\ r.cI = r.oI) => (ToSet(r.cur) = Keys(OldE(r)) /\ Len(r.cur) = r.oI))

AllIds(st) == UNION {Ids(Cont(st[i])) : i \in {j \in DOMAIN st : IsFull(st[j])}}
RECURSIVE SumIds(_, _)
SumIds(st, i) == IF i > Len(st) THEN 0
                 ELSE (IF IsFull(st[i])
                       THEN Cardinality({x \in MainE(st[i]) \cup OldE(st[i]) : x[3] # 0})
                            + Cardinality({x \in MainE(st[i]) \cup OldE(st[i]) : x[4] # 0})
                       ELSE 0) + SumIds(st, i + 1)
RECURSIVE SumTables(_, _)
SumTables(st, i) == IF i > Len(st) THEN 0 ELSE Tables(st[i]) + SumTables(st, i + 1)

\* zero-sized elements cannot carry an identity; their creations and drops are counted instead: the live ZST
\* keys (values) *before* a call -- when every temporary of the previous call is gone -- are exactly the
\* elements the maps held in the previous snapshot (after an injected panic: at least -- an interrupted
\* clone_from may leak clones, but nothing may have been dropped twice)
RECURSIVE SumLens(_, _, _)
SumLens(st, i, mapsOnly) ==
    IF i > Len(st) THEN 0
    ELSE (IF mapsOnly /\ st[i].ty # "map" THEN 0 ELSE st[i].len) + SumLens(st, i + 1, mapsOnly)
ZstLive(e) ==
    HasF(e, "zl0") =>
        Chk("C06", "zst_live_objects", e,
            IF ctx.postFault
            THEN e.zl0[1] >= SumLens(snap, 1, FALSE) /\ e.zl0[2] >= SumLens(snap, 1, TRUE)
            ELSE e.zl0[1] = SumLens(snap, 1, FALSE) /\ e.zl0[2] = SumLens(snap, 1, TRUE))

GlobalMon(e, la) ==
    /\ \A i \in DOMAIN e.st : SlotMon(e, e.st[i])
    /\ ZstLive(e)
    /\ Chk("C05,C06", "no_use_of_dead_object", e, e.led.dead = <<>>)
    /\ Chk("C06", "no_double_drop", e, e.led.dd = <<>>)
    /\ Chk("C06", "no_shared_objects", e, SumIds(e.st, 1) = Cardinality(AllIds(e.st)))
    /\ Chk("C03", "live_table_allocations", e, HasF(e, "par") \/ e.cost.live = SumTables(e.st, 1) + la)

\* two snapshots of a slot describe the same map state (contents are only logged while the total
\* number of elements is small, so "full" may differ between two snapshots of an untouched slot)
Core(r) == <<r.len, r.cap, r.empty, r.mI, r.mC, r.mB, r.sp, r.oI, r.oB, r.cI, r.hm, r.hs, r.ty>>
SameSlot(a, b) ==
    /\ Core(a) = Core(b)
    /\ (IsFull(a) /\ IsFull(b)) => (a.main = b.main /\ a.old = b.old /\ a.cur = b.cur)

\* every slot other than those in W is bit-for-bit what it was (C11: no cross-slot effect;
\* C02: read-only calls move nothing)
Frame(e, W) ==
    /\ Chk("C11", "slot_set", e, SlotsOf(e.st) \ W = SlotsOf(snap) \ W)
    /\ \A s \in (SlotsOf(e.st) \cap SlotsOf(snap)) \ W :
           Chk("C11,C02", "untouched_slot_unchanged", e, SameSlot(SlotR(e.st, s), SlotR(snap, s)))

\* the map dropped exactly D during the call (each object once)
DropsAre(e, D) ==
    Chk("C06", "drops", e, ToSet(e.led.drop) = D /\ Len(e.led.drop) = Cardinality(D))

NoPanic(e) == Chk("C01,C17", "no_undocumented_panic", e, ~Panicked(e))

Pre(s) == SlotR(snap, s)
Post(e, s) == SlotR(e.st, s)
BothFull(e, s) == Alive(snap, s) /\ Alive(e.st, s) /\ IsFull(Pre(s)) /\ IsFull(Post(e, s))

ContentsAre(e, s, E) ==
    Chk("C01,C13", "contents", e, Alive(e.st, s) /\ (IsFull(Post(e, s)) => Cont(Post(e, s)) = E))

(***************************************************************************)
(* Cost classes (C02) and resize progress (C03)                            *)
(***************************************************************************)
MovedOut(e, s) == Pre(s).oI - Post(e, s).oI
\* lookups, removals, in-place updates: hash only the queried key, allocate nothing, move nothing
CostQuiet(e, s, maxh) ==
    /\ Chk("C02", "lookup_hashes", e, e.cost.h <= maxh)
    /\ Chk("C02", "lookup_allocates_nothing", e, AL(e) = 0)
    /\ Chk("C02", "lookup_moves_nothing", e,
           (Alive(e.st, s) /\ Alive(snap, s)) =>
              /\ Post(e, s).mB = Pre(s).mB
              /\ Post(e, s).mI <= Pre(s).mI
              /\ (BothFull(e, s) => Keys(MainE(Post(e, s))) \subseteq Keys(MainE(Pre(s)))))
\* a call that adds one key
\* a call that adds one key (an entry chain may contain n such calls: Entry::insert, then
\* replace_entry_with(None), then VacantEntry::insert)
CostKeyAddN(e, s, removedFromOld, n) ==
    /\ Chk("C02", "R_is_8_or_test_4", e, R \in {4, 8})
    /\ Chk("C02", "keyadd_hashes", e, e.cost.h <= n * R + 2)
    /\ Chk("C02", "keyadd_allocs", e, AL(e) <= n)
    /\ Chk("C02", "keyadd_moves", e, (IsSplit(Pre(s)) => MovedOut(e, s) - removedFromOld <= n * R))
CostKeyAdd(e, s, removedFromOld) == CostKeyAddN(e, s, removedFromOld, 1)
\* C03: a key-adding call on a split map moves min(R, remaining) and frees the emptied old table
Progress(e, s, removedFromOld) ==
    Chk("C03", "moves_min_R_remaining", e,
        IsSplit(Pre(s)) =>
            LET rem == Pre(s).oI - removedFromOld IN
            /\ Post(e, s).oI = rem - MinI(R, rem)
            /\ (Post(e, s).oI = 0 => ~IsSplit(Post(e, s))))
\* C04: capacity() never decreases on a key-adding call
CapMono(e, s) == Chk("C04", "capacity_monotone_on_keyadd", e, Post(e, s).cap >= Pre(s).cap)
\* C03: a call that removes through remove()/drain_filter frees an emptied old table at once
FreesEmptied(e, s) ==
    Chk("C03", "emptied_old_table_freed", e,
        (IsSplit(Pre(s)) /\ Pre(s).oI > 0 /\ Post(e, s).oI = 0) => ~IsSplit(Post(e, s)))

(***************************************************************************)
(* Handlers: one per operation.                                            *)
(***************************************************************************)
ElemOfRes(r, k) == <<k, r.v, (IF HasF(r, "kid") THEN r.kid ELSE 0), r.vid>>

H_New(e) ==
    /\ Frame(e, {e.s})
    /\ IF Panicked(e)
       THEN Chk("C10", "with_capacity_panics_only_on_overflow", e, e.res.class = "capacity_overflow" /\ e.big = 1)
       ELSE /\ Chk("C10", "with_capacity", e, Alive(e.st, e.s) /\ e.big = 0 /\ Post(e, e.s).cap >= e.cap
                                               /\ Post(e, e.s).len = 0 /\ ~IsSplit(Post(e, e.s)))
            /\ Chk("C02", "new_allocs", e, AL(e) <= 1 /\ (e.cap = 0 => AL(e) = 0))
            /\ DropsAre(e, {})

\* HashMap::new / with_capacity(n) / HashSet::new / with_capacity(n) (default hasher), on a throw-away
\* collection: capacity() >= n, then n insertions without reallocation, all found
H_NewDflt(e) ==
    /\ Frame(e, {})
    /\ NoPanic(e)
    /\ (~Panicked(e)) =>
         /\ Chk("C10", "with_capacity_default_hasher", e,
                e.res.t = "newd" /\ e.res.cap0 >= e.ncap /\ (e.ncap = 0 => (e.res.cap0 = 0 /\ e.res.al0 = 0)) /\ e.res.al0 <= 1)
         /\ Chk("C10", "with_capacity_then_n_insertions_without_reallocation", e,
                e.res.t = "newd" => (e.res.len = e.ncap /\ e.res.al1 = 0 /\ e.res.cap1 >= e.res.cap0 /\ e.res.all = 1))

\* a large collection deserialised from a source with an exact size hint, into slot d
H_SerdeBig(e) ==
    /\ Frame(e, {e.d})
    /\ NoPanic(e)
    /\ Chk("C16", "deserialize_completes", e, ~Panicked(e))
    /\ (~Panicked(e)) =>
         Chk("C16", "deserialize_yields_equal_collection", e,
             Alive(e.st, e.d) /\ e.res.t = "sbig" /\ e.res.len = e.nn /\ e.res.found = e.nn /\ Post(e, e.d).len = e.nn
             /\ Post(e, e.d).cap >= e.nn)

H_Insert(e) ==
    LET s == e.s IN
    /\ Frame(e, {s})
    /\ IF ~BothFull(e, s) THEN TRUE
       ELSE LET X == MInsert(Cont(Pre(s)), e.k, e.v, e.kid, e.vid) IN
            IF Panicked(e) THEN NoPanic(e)
            ELSE /\ Chk("C01", "insert_result", e,
                        IF X.found THEN (e.res.t = "some" /\ e.res.v = X.rv /\ e.res.vid = X.rvid)
                        ELSE e.res.t = "none")
                 /\ ContentsAre(e, s, X.E)
                 /\ DropsAre(e, X.drops)
                 /\ IF X.found /\ ~Has(OldE(Pre(s)), e.k)
                    THEN CostQuiet(e, s, 1)
                    ELSE /\ CostKeyAdd(e, s, 0) /\ Progress(e, s, 0) /\ CapMono(e, s)
    /\ (~BothFull(e, s) /\ ~Panicked(e) /\ Alive(snap, s)) =>
          \* counters only (large maps)
          /\ Chk("C01", "insert_len", e, Post(e, s).len = Pre(s).len + (IF e.res.t = "none" THEN 1 ELSE 0))
          /\ (e.res.t = "none" => (CostKeyAdd(e, s, 0) /\ Progress(e, s, 0) /\ CapMono(e, s)))
          /\ (e.res.t = "some" => Chk("C02", "overwrite_cost", e, e.cost.h <= R + 1 /\ AL(e) = 0 /\ MovedOut(e, s) <= R))

GetMutKinds == {"get_mut", "get_key_value_mut"}
GetKeyKinds == {"get_key_value", "get_key_value_mut", "raw_key", "raw_key_hashed", "raw_hash"}
H_Get(e) ==
    LET s == e.s
        mut == e.kind \in GetMutKinds /\ HasF(e, "w")
        maxh == IF e.kind \in {"raw_key_hashed", "raw_hash"} THEN 0 ELSE 1
    IN
    /\ Frame(e, IF mut THEN {s} ELSE {})
    /\ CostQuiet(e, s, maxh)
    /\ DropsAre(e, {})
    /\ BothFull(e, s) =>
        LET E == Cont(Pre(s)) IN
        IF Panicked(e)
        THEN Chk("C01", "index_panics_only_when_missing", e,
                 e.kind = "index" /\ ~Has(E, e.k) /\ e.res.class = "index_missing")
        ELSE /\ Chk("C01", "lookup_result", e,
                    IF Has(E, e.k)
                    THEN LET o == At(E, e.k) IN
                         /\ e.res.t = "some"
                         /\ (e.kind = "contains_key" \/
                              (/\ e.res.v = (IF mut THEN e.w ELSE o[2])
                               /\ e.res.vid = o[4]
                               /\ (e.kind \in GetKeyKinds => (e.res.k = e.k /\ e.res.kid = o[3]))))
                    ELSE e.res.t = "none")
             /\ ContentsAre(e, s, IF mut /\ Has(E, e.k) THEN SetVal(E, e.k, e.w) ELSE E)
             /\ (mut => Chk("C02", "get_mut_moves_nothing", e,
                            MainE(Post(e, s)) \cup OldE(Post(e, s)) = Cont(Post(e, s))
                            /\ Keys(MainE(Post(e, s))) = Keys(MainE(Pre(s)))))

H_Remove(e) ==
    LET s == e.s IN
    /\ Frame(e, {s})
    /\ CostQuiet(e, s, 1)
    /\ NoPanic(e)
    /\ FreesEmptied(e, s)
    /\ (BothFull(e, s) /\ ~Panicked(e)) =>
        LET X == MRemove(Cont(Pre(s)), e.k, e.op = "RemoveEntry") IN
        /\ Chk("C01", "remove_result", e,
               IF X.found
               THEN /\ e.res.t = "some" /\ e.res.v = X.el[2] /\ e.res.vid = X.el[4]
                    /\ (e.op = "RemoveEntry" => (e.res.k = e.k /\ e.res.kid = X.el[3]))
               ELSE e.res.t = "none")
        /\ ContentsAre(e, s, X.E)
        /\ DropsAre(e, X.drops)
        /\ Chk("C02", "remove_moves_nothing", e, Keys(OldE(Post(e, s))) = Keys(OldE(Pre(s))) \ {e.k})

H_Clear(e) ==
    LET s == e.s IN
    /\ Frame(e, {s})
    /\ NoPanic(e)
    /\ Chk("C01,C13", "clear_empties", e, Post(e, s).len = 0 /\ Post(e, s).empty = 1)
    /\ Chk("C03", "clear_frees_old_table", e, ~IsSplit(Post(e, s)))
    /\ Chk("C02", "clear_cost", e, e.cost.h = 0 /\ AL(e) = 0)
    /\ IsFull(Pre(s)) => DropsAre(e, Ids(Cont(Pre(s))))

\* the numeric value of a usize argument, mapped into TLC's range:  x |-> Anchor - (limit - x)
H_Capacity(e) ==
    LET s == e.s
        pre == Pre(s)
        post == Post(e, s)
        small == e.big = 0
    IN
    /\ Frame(e, {s})
    /\ DropsAre(e, {})
    /\ Chk("C02", "capacity_call_hashes_nothing_new", e, AL(e) <= 1)
    /\ Chk("C01,C10", "capacity_call_keeps_contents", e,
           post.len = pre.len /\ ((IsFull(pre) /\ IsFull(post)) => Cont(post) = Cont(pre)))
    /\ CASE e.op \in {"Reserve", "TryReserve"} ->
              /\ IF Panicked(e)
                 THEN Chk("C10,C17", "reserve_panics_only_on_overflow", e,
                          e.op = "Reserve" /\ e.res.class = "capacity_overflow" /\ ~small)
                 ELSE IF e.res.t = "ok"
                 THEN /\ Chk("C10,C17", "reserve_ok_has_room", e, small /\ post.cap >= pre.len + e.n)
                      /\ Chk("C03", "reserve_never_three_tables", e, Tables(post) <= 2)
                 ELSE Chk("C10", "try_reserve_err_only_on_overflow", e,
                          e.op = "TryReserve" /\ ~small /\ e.res.t = "err_overflow")
              /\ Chk("C02", "reserve_fast_path_is_free", e,
                     (small /\ pre.mC - pre.mI > pre.oI + e.n) => (e.cost.h = 0 /\ AL(e) = 0 /\ SameSlot(post, pre)))
              /\ Chk("C02", "reserve_unsplit_is_incremental", e,
                     (small /\ ~IsSplit(pre)) => e.cost.h = 0)
         [] OTHER ->
              LET m == IF e.op = "ShrinkToFit" THEN 0 ELSE e.n IN
              /\ NoPanic(e)
              /\ Chk("C10", "shrink_never_enlarges", e, post.mB <= pre.mB)
              /\ Chk("C10", "shrink_capacity_floor", e,
                     /\ post.cap >= post.len
                     /\ (~small => post.cap >= pre.cap)
                     /\ (small => post.cap >= (IF m < pre.cap THEN m ELSE pre.cap)))
              /\ Chk("C03", "shrink_keeps_at_most_two_tables", e, Tables(post) <= 2)

H_Retain(e) ==
    LET s == e.s IN
    /\ Frame(e, {s})
    /\ NoPanic(e)
    /\ Chk("C02", "retain_cost", e, e.cost.h = 0 /\ AL(e) = 0)
    /\ (BothFull(e, s) /\ ~Panicked(e)) =>
        LET E == Cont(Pre(s))
            M == Mutated(E, e.calls)
            kept == {x \in M : Called(e.calls, x[1]) => Verdict(e.calls, x[1]) = 1}
        IN
        /\ Chk("C09", "retain_calls_each_once", e, CalledOnce(E, e.calls) /\ CallKeys(e.calls) = Keys(E))
        /\ Chk("C09", "retain_call_args", e,
               \A i \in DOMAIN e.calls : LET c == e.calls[i] IN
                   Has(E, c[1]) /\ At(E, c[1])[3] = c[4] /\ At(E, c[1])[4] = c[5])
        /\ Chk("C09,C01", "retain_keeps_exactly", e, IsFull(Post(e, s)) => Cont(Post(e, s)) = kept)
        \* C13 lists retain among the set operations whose results equal the reference set's: the reference
        \* asks the predicate about every element
        /\ (Pre(s).ty = "set") =>
               Chk("C13", "set_retain_equals_reference", e,
                   CallKeys(e.calls) = Keys(E) /\ (IsFull(Post(e, s)) => Cont(Post(e, s)) = kept))
        /\ DropsAre(e, Ids(M \ kept))
        /\ Chk("C02", "retain_moves_nothing", e,
               /\ Keys(MainE(Post(e, s))) \subseteq Keys(MainE(Pre(s)))
               /\ Keys(OldE(Post(e, s))) \subseteq Keys(OldE(Pre(s))))

H_DrainFilter(e) ==
    LET s == e.s IN
    /\ Frame(e, {s})
    /\ NoPanic(e)
    /\ Chk("C02", "drain_filter_cost", e, e.cost.h = 0 /\ AL(e) = 0)
    /\ FreesEmptied(e, s)
    /\ (BothFull(e, s) /\ ~Panicked(e)) =>
        LET E == Cont(Pre(s))
            M == Mutated(E, e.calls)
            matched == {x \in M : Called(e.calls, x[1]) /\ Verdict(e.calls, x[1]) = 1}
            Y == ToSet(e.yield)
            complete == e.end # "forget"
        IN
        /\ Chk("C09", "drain_filter_calls_at_most_once", e, CalledOnce(E, e.calls))
        /\ Chk("C09", "drain_filter_calls_all_unless_forgotten", e, complete => CallKeys(e.calls) = Keys(E))
        /\ Chk("C09", "drain_filter_yields_matches", e,
               /\ NoDup(e.yield) /\ Y \subseteq matched
               /\ ((e.end = "exhaust" /\ ~HasF(e, "take")) => Y = matched))
        /\ Chk("C09,C01", "drain_filter_leaves_the_rest", e,
               IsFull(Post(e, s)) => Cont(Post(e, s)) = (IF complete THEN M \ matched ELSE M \ Y))
        /\ (Pre(s).ty = "set") =>
               Chk("C13", "set_drain_filter_equals_reference", e,
                   /\ (complete => CallKeys(e.calls) = Keys(E))
                   /\ (IsFull(Post(e, s)) => Cont(Post(e, s)) = (IF complete THEN M \ matched ELSE M \ Y)))
        /\ DropsAre(e, IF complete THEN Ids(matched \ Y) ELSE {})
        /\ Chk("C02", "drain_filter_moves_nothing", e,
               /\ Keys(MainE(Post(e, s))) \subseteq Keys(MainE(Pre(s)))
               /\ Keys(OldE(Post(e, s))) \subseteq Keys(OldE(Pre(s))))

\* size_hint()/len() before each next(): exact number still to come
HintsExact(e, total) ==
    \A i \in DOMAIN e.hints :
        LET h == e.hints[i] IN h[1] = total - (i - 1) /\ h[2] = total - (i - 1) /\ h[3] = total - (i - 1)
TailFused(e) == \A i \in DOMAIN e.tail : e.tail[i] = 1

H_Drain(e) ==
    LET s == e.s IN
    /\ Frame(e, {s})
    /\ NoPanic(e)
    /\ Chk("C08,C01", "drain_leaves_empty_usable_map", e,
           Post(e, s).len = 0 /\ ~IsSplit(Post(e, s)) /\ Post(e, s).cap >= 0)
    /\ Chk("C02", "drain_cost", e, e.cost.h = 0 /\ AL(e) = 0)
    /\ IsFull(Pre(s)) =>
        LET E == Cont(Pre(s)) IN
        /\ Chk("C08", "drain_yields_each_once", e,
               IsPartialEnumerationOf(e.yield, E) /\ (~HasF(e, "take") => ToSet(e.yield) = E))
        /\ Chk("C08", "drain_exact_len", e, HintsExact(e, Cardinality(E)) /\ TailFused(e))
        /\ DropsAre(e, IF e.end = "forget" THEN {} ELSE Ids(E \ ToSet(e.yield)))

H_IntoIter(e) ==
    LET s == e.s IN
    /\ Frame(e, {s})
    /\ NoPanic(e)
    /\ Chk("C08", "into_iter_consumes_map", e, ~Alive(e.st, s))
    /\ Chk("C02", "into_iter_cost", e, e.cost.h = 0 /\ AL(e) = 0)
    /\ IsFull(Pre(s)) =>
        LET E == Cont(Pre(s)) IN
        /\ Chk("C08", "into_iter_yields_each_once", e,
               IsPartialEnumerationOf(e.yield, E) /\ (~HasF(e, "take") => ToSet(e.yield) = E))
        /\ Chk("C08", "into_iter_exact_len", e, HintsExact(e, Cardinality(E)) /\ TailFused(e))
        /\ DropsAre(e, Ids(E \ ToSet(e.yield)))

H_DropMap(e) ==
    LET s == e.s IN
    /\ Frame(e, {s})
    /\ NoPanic(e)
    /\ Chk("C06", "drop_removes_slot", e, ~Alive(e.st, s))
    /\ (Alive(snap, s) /\ IsFull(Pre(s))) => DropsAre(e, Ids(Cont(Pre(s))))

\* projections of an element as the different iterators show it
ProjOf(kind, x) ==
    CASE kind = "keys" -> <<x[1], 0, x[3], 0>>
      [] kind \in {"values", "values_mut"} -> <<0, x[2], 0, x[4]>>
      [] OTHER -> x
\* kind "zip": cyield = keys(), tail = values(), yield = iter(): all three in the same order
H_IterZip(e) ==
    LET s == e.s IN
    /\ Frame(e, {})
    /\ NoPanic(e)
    /\ CostQuiet(e, s, 0)
    /\ BothFull(e, s) =>
        LET E == Cont(Pre(s)) IN
        /\ Chk("C08", "iter_yields_each_once", e, IsEnumerationOf(e.yield, E))
        /\ Chk("C08", "keys_and_values_same_order", e,
               /\ Len(e.cyield) = Len(e.yield) /\ Len(e.tail) = Len(e.yield)
               /\ \A i \in DOMAIN e.yield :
                     /\ e.cyield[i][1] = e.yield[i][1] /\ e.cyield[i][3] = e.yield[i][3]
                     /\ e.tail[i][2] = e.yield[i][2] /\ e.tail[i][4] = e.yield[i][4])

H_Iter(e) ==
    LET s == e.s
        mut == e.kind \in {"iter_mut", "values_mut", "mut_into_iter"} /\ HasF(e, "add")
    IN
    /\ Frame(e, IF mut THEN {s} ELSE {})
    /\ NoPanic(e)
    /\ CostQuiet(e, s, 0)
    /\ DropsAre(e, {})
    /\ BothFull(e, s) =>
        LET E == Cont(Pre(s))
            n == Cardinality(E)
            Y == ToSet(e.yield)
            \* elements as they are after the writes made through the iterator
            After == {IF mut /\ ProjOf(e.kind, <<x[1], (x[2] + e.add) % 1000, x[3], x[4]>>) \in Y
                      THEN <<x[1], (x[2] + e.add) % 1000, x[3], x[4]>> ELSE x : x \in E}
            Shown == {ProjOf(e.kind, x) : x \in After}
        IN
        /\ Chk("C08", "iter_yields_each_once", e,
               IF e.kind \in {"values", "values_mut"} /\ Hdr.elem # "heap"
               THEN Len(e.yield) <= n     \* untracked values are not distinguishable
               ELSE /\ Len(e.yield) = Cardinality(Y)
                    /\ Y \subseteq Shown
                    /\ (~HasF(e, "take") => Y = Shown))
        /\ Chk("C08", "iter_exact_len", e, HintsExact(e, n) /\ TailFused(e))
        /\ Chk("C08", "iter_complete", e, ~HasF(e, "take") => Len(e.yield) = n)
        /\ Chk("C08", "iter_clone_independent", e,
               (HasF(e, "clone_at") /\ e.clone_at <= Len(e.yield) /\ Hdr.elem = "heap" /\ e.kind \in {"iter", "keys", "values"}) =>
                  \* the clone yields exactly what the original still had to yield
                  /\ Len(e.cyield) = n - e.clone_at
                  /\ ToSet(e.cyield) = Shown \ {e.yield[i] : i \in 1..e.clone_at})
        /\ Chk("C01", "iter_mut_writes_persist", e,
               (IsFull(Post(e, s)) /\ ~(e.kind = "values_mut" /\ Hdr.elem # "heap" /\ HasF(e, "take")))
                   => Cont(Post(e, s)) = After)

\* extend(items) / from_iter(items): the same as inserting one by one
RECURSIVE InsertAll(_, _, _)
InsertAll(X, objs, i) ==
    IF i > Len(objs) THEN X
    ELSE LET o == objs[i]
             Y == MInsert(X.E, o[1], o[2], o[3], o[4])
         IN InsertAll([E |-> Y.E, drops |-> X.drops \cup Y.drops \cup (IF Y.found THEN NZ({Y.rvid}) ELSE {})], objs, i + 1)
H_Extend(e) ==
    LET s == e.s IN
    /\ Frame(e, {s})
    /\ IF e.big = 1
       THEN \* a size hint near usize::MAX: the up-front reserve reports capacity overflow (both profiles)
            /\ Chk("C10,C17", "extend_panics_only_on_overflow", e, Panicked(e) => e.res.class = "capacity_overflow")
            /\ Chk("C10,C01", "failed_extend_changes_nothing", e,
                   (Panicked(e) /\ BothFull(e, s)) => Cont(Post(e, s)) = Cont(Pre(s)))
       ELSE NoPanic(e)
    /\ Chk("C02", "extend_allocs", e, AL(e) <= Len(e.objs) + 2)
    /\ ((e.op = "FromIter" \/ BothFull(e, s)) /\ ~Panicked(e) /\ Alive(e.st, s)) =>
        LET X == InsertAll([E |-> IF e.op = "FromIter" THEN {} ELSE Cont(Pre(s)), drops |-> {}], e.objs, 1) IN
        /\ ContentsAre(e, s, X.E)
        /\ DropsAre(e, X.drops)
        /\ Chk("C01", "extend_len", e, Post(e, s).len = Cardinality(X.E))

\* C04's own sentence, executed on the real map: insert capacity()-len() previously unseen keys
H_Probe(e) ==
    LET s == e.s IN
    /\ Frame(e, {s})
    /\ Chk("C04", "probe_completes_without_panic", e, ~Panicked(e))
    /\ (~Panicked(e) /\ Alive(e.st, s)) =>
        /\ Chk("C04", "probe_size", e, e.k = Len(e.objs) /\ (e.k = Pre(s).cap - Pre(s).len \/ e.k = 400 \/ Hdr.elem = "zst"))
        /\ Chk("C04", "probe_allocates_no_table", e, AL(e) = 0)
        /\ Chk("C04", "probe_capacity_never_decreases", e, e.mincap >= Pre(s).cap /\ Post(e, s).cap >= Pre(s).cap)
        /\ Chk("C04", "probe_leaves_no_resize_pending", e, (e.k > 0 /\ e.k < 400) => ~IsSplit(Post(e, s)))
        /\ Chk("C04,C01", "probe_contents", e,
               BothFull(e, s) => Cont(Post(e, s)) = Cont(Pre(s)) \cup ToSet(e.objs))
        /\ Chk("C04,C01", "probe_len", e, Post(e, s).len = Pre(s).len + e.k)
        /\ DropsAre(e, {})

H_Clone(e) ==
    LET s == e.s
        d == e.d
    IN
    /\ Frame(e, {d})
    /\ NoPanic(e)
    /\ Chk("C11", "clone_source_unchanged", e, SameSlot(Post(e, s), Pre(s)))
    /\ (Alive(e.st, d) /\ IsFull(Pre(s)) /\ IsFull(Post(e, d))) =>
        LET Es == Cont(Pre(s))
            Ed == Cont(Post(e, d))
        IN
        /\ Chk("C11", "clone_equal_contents", e, {<<x[1], x[2]>> : x \in Ed} = {<<x[1], x[2]>> : x \in Es}
                                                   /\ Cardinality(Ed) = Cardinality(Es))
        /\ Chk("C11,C06", "clone_is_deep", e, Hdr.elem = "heap" => (Ids(Ed) \cap Ids(Es) = {}
                                                   /\ Ids(Ed) = ToSet(e.led.new)))
        /\ Chk("C11", "clone_adopts_hasher", e, Post(e, d).hm = Pre(s).hm /\ Post(e, d).hs = Pre(s).hs)
        /\ Chk("C03", "clone_is_unsplit", e, ~IsSplit(Post(e, d)))
        /\ (e.op = "CloneFrom" /\ Alive(snap, d) /\ IsFull(Pre(d))) => DropsAre(e, Ids(Cont(Pre(d))))
        /\ (e.op = "Clone") => DropsAre(e, {})

H_Eq(e) ==
    /\ Frame(e, {})
    /\ NoPanic(e)
    /\ DropsAre(e, {})
    /\ Chk("C02", "eq_allocates_nothing", e, AL(e) = 0)
    /\ (IsFull(Pre(e.s)) /\ IsFull(Pre(e.d)) /\ ~Panicked(e)) =>
        Chk("C14,C11,C13", "eq_is_content_equality", e,
            (e.res.b = 1) <=> ({<<x[1], x[2]>> : x \in Cont(Pre(e.s))} = {<<x[1], x[2]>> : x \in Cont(Pre(e.d))}))

(***************************************************************************)
(* entry(k) chains                                                         *)
(***************************************************************************)
\* chain state: E contents, mode, ek = identity of the key object the handle still owns,
\* drops, ok = every observation so far matched, added = a new key was inserted, fn = closure calls
C0(E, ek) == [E |-> E, mode |-> "E", ek |-> ek, drops |-> {}, ok |-> TRUE, added |-> FALSE, fn |-> 0, bad |-> 0, rm |-> 0, nadd |-> 0]
Obs(C, i, o, cond) == [C EXCEPT !.ok = C.ok /\ ~HasF(o, "na") /\ cond,
                                !.bad = IF C.bad = 0 /\ ~(~HasF(o, "na") /\ cond) THEN i ELSE C.bad]
EStep(C0_, kk, m, o, vid, i) ==
    LET name == m.m
        C == C0_
        pres == Has(C.E, kk)
        el == IF pres THEN At(C.E, kk) ELSE <<kk, 0, 0, 0>>
        some == HasF(m, "some")
        NotApplicable == [C EXCEPT !.ok = C.ok /\ HasF(o, "na"), !.bad = IF C.bad = 0 /\ ~HasF(o, "na") THEN i ELSE C.bad]
        \* f(k, v) -> Some(v') keeps the objects, None drops the value; the key moves to the vacant handle
        ReplaceWith ==
            IF some THEN Obs([C EXCEPT !.E = Put(C.E, <<kk, m.some, el[3], el[4]>>), !.mode = "E", !.fn = @ + 1], i, o, TRUE)
            ELSE Obs([C EXCEPT !.E = Without(C.E, kk), !.mode = "E", !.fn = @ + 1, !.rm = @ + 1,
                               !.drops = @ \cup NZ({el[4], C.ek}), !.ek = el[3]], i, o, TRUE)
    IN
    CASE C.mode = "E" /\ name = "key" ->
             Obs(C, i, o, o.k = kk /\ o.kid = (IF pres THEN el[3] ELSE C.ek))
      [] C.mode = "E" /\ name \in {"or_insert", "or_insert_with", "or_insert_with_key", "or_default"} ->
             \* or_default: V::default() (value 0, a new object whose id is logged afterwards) is only
             \* created when the key is absent
             IF pres
             THEN Obs([C EXCEPT !.mode = "R", !.drops = @ \cup NZ({vid, C.ek}), !.ek = 0], i, o,
                      name = "or_default" => vid = 0)
             ELSE Obs([C EXCEPT !.mode = "R", !.E = @ \cup {<<kk, IF name = "or_default" THEN 0 ELSE m.v, C.ek, vid>>},
                               !.ek = 0, !.added = TRUE, !.nadd = @ + 1,
                               !.fn = @ + (IF name \in {"or_insert", "or_default"} THEN 0 ELSE 1)], i, o, TRUE)
      [] C.mode = "E" /\ name = "and_modify" ->
             IF pres THEN Obs([C EXCEPT !.E = Put(C.E, <<kk, (el[2] + m.add) % 1000, el[3], el[4]>>), !.fn = @ + 1], i, o, TRUE)
             ELSE Obs(C, i, o, TRUE)
      [] C.mode = "E" /\ name = "and_replace_entry_with" ->
             IF pres THEN ReplaceWith ELSE Obs(C, i, o, TRUE)
      [] C.mode = "E" /\ name = "insert" ->
             IF pres
             THEN Obs([C EXCEPT !.E = Put(C.E, <<kk, m.v, el[3], vid>>), !.mode = "O", !.drops = @ \cup NZ({el[4]})], i, o, TRUE)
             ELSE Obs([C EXCEPT !.E = @ \cup {<<kk, m.v, C.ek, vid>>}, !.mode = "O", !.ek = 0, !.added = TRUE, !.nadd = @ + 1], i, o, TRUE)
      [] C.mode = "E" /\ name = "match" ->
             Obs([C EXCEPT !.mode = IF pres THEN "O" ELSE "V"], i, o, o.occ = (IF pres THEN 1 ELSE 0))
      [] C.mode = "O" /\ name \in {"o_key", "o_key_mut"} -> Obs(C, i, o, o.k = kk /\ o.kid = el[3])
      [] C.mode = "O" /\ name = "o_get" -> Obs(C, i, o, o.v = el[2] /\ o.vid = el[4])
      [] C.mode = "O" /\ name = "o_get_mut" ->
             LET nv == IF HasF(m, "w") THEN m.w ELSE el[2] IN
             Obs([C EXCEPT !.E = Put(C.E, <<kk, nv, el[3], el[4]>>)], i, o, o.v = nv /\ o.vid = el[4])
      [] C.mode = "O" /\ name = "o_into_mut" ->
             Obs([C EXCEPT !.mode = "R", !.drops = @ \cup NZ({C.ek}), !.ek = 0], i, o, TRUE)
      [] C.mode = "O" /\ name = "o_insert" ->
             Obs([C EXCEPT !.E = Put(C.E, <<kk, m.v, el[3], vid>>)], i, o, o.rv = el[2] /\ o.rvid = el[4])
      [] C.mode = "O" /\ name = "o_remove" ->
             Obs([C EXCEPT !.E = Without(C.E, kk), !.mode = "D", !.rm = @ + 1, !.drops = @ \cup NZ({el[3], C.ek}), !.ek = 0], i, o,
                 o.rv = el[2] /\ o.rvid = el[4])
      [] C.mode = "O" /\ name = "o_remove_entry" ->
             Obs([C EXCEPT !.E = Without(C.E, kk), !.mode = "D", !.rm = @ + 1, !.drops = @ \cup NZ({C.ek}), !.ek = 0], i, o,
                 o.rk = kk /\ o.rkid = el[3] /\ o.rv = el[2] /\ o.rvid = el[4])
      [] C.mode = "O" /\ name = "o_replace_entry" ->
             Obs([C EXCEPT !.E = Put(C.E, <<kk, m.v, C.ek, vid>>), !.mode = "D", !.ek = 0], i, o,
                 o.rk = kk /\ o.rkid = el[3] /\ o.rv = el[2] /\ o.rvid = el[4])
      [] C.mode = "O" /\ name = "o_replace_key" ->
             Obs([C EXCEPT !.E = Put(C.E, <<kk, el[2], C.ek, el[4]>>), !.mode = "D", !.ek = 0], i, o,
                 o.rk = kk /\ o.rkid = el[3])
      [] C.mode = "O" /\ name = "o_replace_entry_with" -> ReplaceWith
      [] C.mode = "V" /\ name = "v_key" -> Obs(C, i, o, o.k = kk /\ o.kid = C.ek)
      [] C.mode = "V" /\ name = "v_into_key" -> Obs([C EXCEPT !.mode = "D", !.ek = 0], i, o, o.rk = kk /\ o.rkid = C.ek)
      [] C.mode = "V" /\ name = "v_insert" ->
             Obs([C EXCEPT !.E = @ \cup {<<kk, m.v, C.ek, vid>>}, !.mode = "R", !.ek = 0, !.added = TRUE, !.nadd = @ + 1], i, o, TRUE)
      [] C.mode = "R" /\ name = "write" ->
             LET nv == IF HasF(m, "w") THEN m.w ELSE el[2] IN
             Obs([C EXCEPT !.E = Put(C.E, <<kk, nv, el[3], el[4]>>)], i, o, o.v = nv /\ o.vid = el[4])
      [] C.mode = "R" /\ name = "read" -> Obs(C, i, o, o.v = el[2] /\ o.vid = el[4])
      [] OTHER -> NotApplicable

RECURSIVE EFold(_, _, _, _)
EFold(C, e, kk, i) ==
    IF i > Len(e.chain) THEN C
    ELSE EFold(EStep(C, kk, e.chain[i], e.obs[i], e.vids[i], i), e, kk, i + 1)

H_Entry(e) ==
    LET s == e.s IN
    /\ Frame(e, {s})
    /\ NoPanic(e)
    /\ (BothFull(e, s) /\ ~Panicked(e)) =>
        LET F == EFold(C0(Cont(Pre(s)), e.kid), e, e.k, 1)
            \* a handle still owning a key object drops it when it goes away
            drops == F.drops \cup (IF F.mode \in {"E", "O", "V"} THEN NZ({F.ek}) ELSE {})
            removedOld == IF Has(OldE(Pre(s)), e.k) /\ ~Has(OldE(Post(e, s)), e.k) /\ ~Has(MainE(Post(e, s)), e.k) THEN 1 ELSE 0
            wasOld == Has(OldE(Pre(s)), e.k)
        IN
        /\ Chk("C12", "entry_observations", e, F.ok \/ PrintT(<<"entry step", F.bad, e.chain, e.obs>>) = FALSE)
        /\ Chk("C12,C01", "entry_contents", e, Cont(Post(e, s)) = F.E)
        /\ DropsAre(e, drops)
        /\ Chk("C12", "entry_closure_calls", e, e.cost.fn = F.fn)
        /\ IF F.added
           THEN /\ CostKeyAddN(e, s, IF wasOld THEN 1 ELSE 0, F.nadd) /\ (F.rm = 0 => CapMono(e, s))
                /\ Chk("C03", "moves_min_R_remaining", e,
                       (IsSplit(Pre(s)) /\ F.nadd = 1) =>
                           LET rem == Pre(s).oI - (IF wasOld THEN 1 ELSE 0) IN
                           /\ Post(e, s).oI = rem - MinI(R, rem)
                           /\ (Post(e, s).oI = 0 => ~IsSplit(Post(e, s))))
           ELSE /\ CostQuiet(e, s, 1)
                /\ Chk("C02", "entry_inplace_moves_nothing", e, Keys(OldE(Post(e, s))) = Keys(OldE(Pre(s))) \ (IF Has(F.E, e.k) THEN {} ELSE {e.k}))

(***************************************************************************)
(* raw_entry_mut() chains: like entry chains, but the handle owns no key;  *)
(* every inserting step brings its own (key, value) objects ids[i]         *)
(***************************************************************************)
RStep(C0_, kk, m, o, ids, i) ==
    LET name == m.m
        C == C0_
        pres == Has(C.E, kk)
        el == IF pres THEN At(C.E, kk) ELSE <<kk, 0, 0, 0>>
        some == HasF(m, "some")
        nk == ids[1]
        nv == ids[2]
        NotApplicable == [C EXCEPT !.ok = C.ok /\ HasF(o, "na"), !.bad = IF C.bad = 0 /\ ~HasF(o, "na") THEN i ELSE C.bad]
        ReplaceWith ==
            IF some THEN Obs([C EXCEPT !.E = Put(C.E, <<kk, m.some, el[3], el[4]>>), !.mode = "E", !.fn = @ + 1], i, o, TRUE)
            ELSE Obs([C EXCEPT !.E = Without(C.E, kk), !.mode = "E", !.fn = @ + 1, !.rm = @ + 1,
                               !.drops = @ \cup NZ({el[3], el[4]})], i, o, TRUE)
    IN
    CASE C.mode = "E" /\ name = "insert" ->
             IF pres
             THEN \* RawEntryMut::insert on an occupied entry: value replaced, the given key dropped
                  Obs([C EXCEPT !.E = Put(C.E, <<kk, m.v, el[3], nv>>), !.mode = "O", !.drops = @ \cup NZ({el[4], nk})], i, o, TRUE)
             ELSE Obs([C EXCEPT !.E = @ \cup {<<kk, m.v, nk, nv>>}, !.mode = "O", !.added = TRUE, !.nadd = @ + 1, !.h2 = TRUE], i, o, TRUE)
      [] C.mode = "E" /\ name \in {"or_insert", "or_insert_with"} ->
             IF pres
             THEN Obs([C EXCEPT !.mode = "R", !.drops = @ \cup NZ({nk, nv})], i, o, TRUE)
             ELSE Obs([C EXCEPT !.mode = "R", !.E = @ \cup {<<kk, m.v, nk, nv>>}, !.added = TRUE, !.nadd = @ + 1, !.h2 = TRUE,
                               !.fn = @ + (IF name = "or_insert" THEN 0 ELSE 1)], i, o, TRUE)
      [] C.mode = "E" /\ name = "and_modify" ->
             IF pres THEN Obs([C EXCEPT !.E = Put(C.E, <<kk, (el[2] + m.add) % 1000, el[3], el[4]>>), !.fn = @ + 1], i, o, TRUE)
             ELSE Obs(C, i, o, TRUE)
      [] C.mode = "E" /\ name = "and_replace_entry_with" ->
             IF pres THEN ReplaceWith ELSE Obs(C, i, o, TRUE)
      [] C.mode = "E" /\ name = "match" ->
             Obs([C EXCEPT !.mode = IF pres THEN "O" ELSE "V"], i, o, o.occ = (IF pres THEN 1 ELSE 0))
      [] C.mode = "O" /\ name \in {"o_key", "o_key_mut"} -> Obs(C, i, o, o.k = kk /\ o.kid = el[3])
      [] C.mode = "O" /\ name = "o_get" -> Obs(C, i, o, o.v = el[2] /\ o.vid = el[4])
      [] C.mode = "O" /\ name = "o_get_key_value" -> Obs(C, i, o, o.k = kk /\ o.kid = el[3] /\ o.v = el[2] /\ o.vid = el[4])
      [] C.mode = "O" /\ name \in {"o_get_mut", "o_get_key_value_mut"} ->
             LET w == IF HasF(m, "w") THEN m.w ELSE el[2] IN
             Obs([C EXCEPT !.E = Put(C.E, <<kk, w, el[3], el[4]>>)], i, o, o.v = w /\ o.vid = el[4])
      [] C.mode = "O" /\ name \in {"o_into_mut", "o_into_key_value"} -> Obs([C EXCEPT !.mode = "R"], i, o, TRUE)
      [] C.mode = "O" /\ name = "o_insert" ->
             Obs([C EXCEPT !.E = Put(C.E, <<kk, m.v, el[3], nv>>)], i, o, o.rv = el[2] /\ o.rvid = el[4])
      [] C.mode = "O" /\ name = "o_insert_key" ->
             Obs([C EXCEPT !.E = Put(C.E, <<kk, el[2], nk, el[4]>>)], i, o, o.rk = kk /\ o.rkid = el[3])
      [] C.mode = "O" /\ name = "o_remove" ->
             Obs([C EXCEPT !.E = Without(C.E, kk), !.mode = "D", !.rm = @ + 1, !.drops = @ \cup NZ({el[3]})], i, o,
                 o.rv = el[2] /\ o.rvid = el[4])
      [] C.mode = "O" /\ name = "o_remove_entry" ->
             Obs([C EXCEPT !.E = Without(C.E, kk), !.mode = "D", !.rm = @ + 1], i, o,
                 o.rk = kk /\ o.rkid = el[3] /\ o.rv = el[2] /\ o.rvid = el[4])
      [] C.mode = "O" /\ name = "o_replace_entry_with" -> ReplaceWith
      [] C.mode = "V" /\ name \in {"v_insert", "v_insert_hashed", "v_insert_with_hasher"} ->
             Obs([C EXCEPT !.E = @ \cup {<<kk, m.v, nk, nv>>}, !.mode = "R", !.added = TRUE, !.nadd = @ + 1,
                           !.h2 = (name = "v_insert")], i, o, TRUE)
      [] C.mode = "R" /\ name = "write" ->
             LET w == IF HasF(m, "w") THEN m.w ELSE el[2] IN
             Obs([C EXCEPT !.E = Put(C.E, <<kk, w, el[3], el[4]>>)], i, o, o.v = w /\ o.vid = el[4] /\ o.k = kk /\ o.kid = el[3])
      [] C.mode = "R" /\ name = "read" -> Obs(C, i, o, o.v = el[2] /\ o.vid = el[4] /\ o.k = kk /\ o.kid = el[3])
      [] OTHER -> NotApplicable

RECURSIVE RFold(_, _, _, _)
RFold(C, e, kk, i) ==
    IF i > Len(e.chain) THEN C
    ELSE RFold(RStep(C, kk, e.chain[i], e.obs[i], e.ids[i], i), e, kk, i + 1)

H_RawEntry(e) ==
    LET s == e.s IN
    /\ Frame(e, {s})
    /\ NoPanic(e)
    /\ (BothFull(e, s) /\ ~Panicked(e)) =>
        LET C == [C0(Cont(Pre(s)), 0) EXCEPT !.mode = "E"]
            F == RFold([E |-> C.E, mode |-> "E", ek |-> 0, drops |-> {}, ok |-> TRUE, added |-> FALSE,
                        fn |-> 0, bad |-> 0, h2 |-> FALSE, rm |-> 0, nadd |-> 0], e, e.k, 1)
            wasOld == Has(OldE(Pre(s)), e.k)
            h0 == IF e.via = "key" THEN 1 ELSE 0
        IN
        /\ Chk("C12", "raw_entry_observations", e, F.ok \/ PrintT(<<"raw entry step", F.bad, e.chain, e.obs>>) = FALSE)
        /\ Chk("C12,C01", "raw_entry_contents", e, Cont(Post(e, s)) = F.E)
        /\ DropsAre(e, F.drops)
        /\ Chk("C12", "raw_entry_closure_calls", e, e.cost.fn = F.fn)
        /\ IF F.added
           THEN /\ CostKeyAddN(e, s, IF wasOld THEN 1 ELSE 0, F.nadd) /\ (F.rm = 0 => CapMono(e, s))
                /\ Chk("C03", "moves_min_R_remaining", e,
                       (IsSplit(Pre(s)) /\ F.nadd = 1) =>
                           LET rem == Pre(s).oI - (IF wasOld THEN 1 ELSE 0) IN
                           /\ Post(e, s).oI = rem - MinI(R, rem)
                           /\ (Post(e, s).oI = 0 => ~IsSplit(Post(e, s))))
           ELSE /\ CostQuiet(e, s, h0)
                /\ Chk("C02", "raw_entry_inplace_moves_nothing", e, Keys(OldE(Post(e, s))) = Keys(OldE(Pre(s))) \ (IF Has(F.E, e.k) THEN {} ELSE {e.k}))

(***************************************************************************)
(* HashSet operations (elements are <<k, 0, kid, 0>>)                      *)
(***************************************************************************)
H_SetOp(e) ==
    LET s == e.s IN
    /\ Frame(e, IF e.op \in {"SContains", "SGet"} THEN {} ELSE {s})
    /\ NoPanic(e)
    /\ (BothFull(e, s) /\ ~Panicked(e)) =>
        LET E == Cont(Pre(s))
            pres == Has(E, e.k)
            el == IF pres THEN At(E, e.k) ELSE <<e.k, 0, 0, 0>>
            wasOld == Has(OldE(Pre(s)), e.k)
            KeyAdd == /\ CostKeyAdd(e, s, 0) /\ CapMono(e, s) /\ Progress(e, s, 0)
        IN
        CASE e.op = "SInsert" ->
                 /\ Chk("C13", "set_insert_result", e, e.res.b = (IF pres THEN 0 ELSE 1))
                 /\ ContentsAre(e, s, IF pres THEN E ELSE E \cup {<<e.k, 0, e.kid, 0>>})
                 /\ DropsAre(e, IF pres THEN NZ({e.kid}) ELSE {})
                 /\ (IF pres /\ ~wasOld THEN CostQuiet(e, s, 1) ELSE KeyAdd)
          [] e.op = "SReplace" ->
                 /\ Chk("C13", "set_replace_result", e,
                        IF pres THEN (e.res.t = "some" /\ e.res.k = e.k /\ e.res.kid = el[3]) ELSE e.res.t = "none")
                 /\ ContentsAre(e, s, Put(E, <<e.k, 0, e.kid, 0>>))
                 /\ DropsAre(e, {})
                 /\ (IF pres THEN CostQuiet(e, s, 1) ELSE KeyAdd)
          [] e.op = "STake" ->
                 /\ Chk("C13", "set_take_result", e,
                        IF pres THEN (e.res.t = "some" /\ e.res.k = e.k /\ e.res.kid = el[3]) ELSE e.res.t = "none")
                 /\ ContentsAre(e, s, Without(E, e.k)) /\ DropsAre(e, {})
                 /\ CostQuiet(e, s, 1) /\ FreesEmptied(e, s)
          [] e.op = "SRemove" ->
                 /\ Chk("C13", "set_remove_result", e, e.res.b = (IF pres THEN 1 ELSE 0))
                 /\ ContentsAre(e, s, Without(E, e.k)) /\ DropsAre(e, IF pres THEN NZ({el[3]}) ELSE {})
                 /\ CostQuiet(e, s, 1) /\ FreesEmptied(e, s)
          [] e.op = "SContains" ->
                 /\ Chk("C13", "set_contains_result", e, e.res.b = (IF pres THEN 1 ELSE 0))
                 /\ ContentsAre(e, s, E) /\ DropsAre(e, {}) /\ CostQuiet(e, s, 1)
          [] e.op = "SGet" ->
                 /\ Chk("C13", "set_get_result", e,
                        IF pres THEN (e.res.t = "some" /\ e.res.k = e.k /\ e.res.kid = el[3]) ELSE e.res.t = "none")
                 /\ ContentsAre(e, s, E) /\ DropsAre(e, {}) /\ CostQuiet(e, s, 1)
          [] OTHER -> \* get_or_insert, get_or_insert_owned (clones the probe only when absent), get_or_insert_with
                 LET newid == IF e.op = "SGetOrInsertOwned" /\ ~pres /\ Hdr.elem = "heap" /\ Len(e.led.new) > 0 THEN e.led.new[1] ELSE e.kid IN
                 /\ Chk("C13", "set_get_or_insert_result", e,
                        e.res.t = "some" /\ e.res.k = e.k /\ e.res.kid = (IF pres THEN el[3] ELSE newid))
                 /\ ContentsAre(e, s, IF pres THEN E ELSE E \cup {<<e.k, 0, newid, 0>>})
                 /\ DropsAre(e, IF pres /\ e.op = "SGetOrInsert" THEN NZ({e.kid}) ELSE {})
                 /\ (IF pres THEN CostQuiet(e, s, 1) ELSE KeyAdd)

H_SAlg(e) ==
    /\ Frame(e, {})
    /\ NoPanic(e)
    /\ (IsFull(Pre(e.s)) /\ IsFull(Pre(e.d)) /\ ~Panicked(e)) =>
        LET A == Keys(Cont(Pre(e.s)))
            B == Keys(Cont(Pre(e.d)))
            Y == {e.yield[i][1] : i \in DOMAIN e.yield}
            once == Cardinality(Y) = Len(e.yield)
        IN
        /\ Chk("C13", "set_algebra_size_hints", e,
               \A i \in DOMAIN e.hints :
                   LET rem == Len(e.yield) - (i - 1) IN
                   e.hints[i][1] <= rem /\ (e.hints[i][2] = -1 \/ rem <= e.hints[i][2]))
        /\ CASE e.kind \in {"union", "bitor"} -> Chk("C13", "union", e, once /\ Y = A \cup B)
             [] e.kind \in {"intersection", "bitand"} -> Chk("C13", "intersection", e, once /\ Y = A \cap B)
             [] e.kind \in {"difference", "sub"} -> Chk("C13", "difference", e, once /\ Y = A \ B)
             [] e.kind \in {"symmetric_difference", "bitxor"} -> Chk("C13", "symmetric_difference", e, once /\ Y = SymDiffS(A, B))
             [] e.kind = "is_subset" -> Chk("C13", "is_subset", e, (e.res.b = 1) <=> (A \subseteq B))
             [] e.kind = "is_superset" -> Chk("C13", "is_superset", e, (e.res.b = 1) <=> (B \subseteq A))
             [] e.kind = "is_disjoint" -> Chk("C13", "is_disjoint", e, (e.res.b = 1) <=> (A \cap B = {}))


(***************************************************************************)
(* C07: an operation interrupted by a panic injected at one callback       *)
(*   fault = [kind: 0 Hash | 1 Eq | 2 Clone | 3 closure, at, of, fired, victim]  *)
(***************************************************************************)
SeqIds(q, i, j) == {q[n][i] : n \in DOMAIN q} \cup {q[n][j] : n \in DOMAIN q}
NewIds(e) ==
    NZ( (IF HasF(e, "kid") THEN {e.kid} ELSE {}) \cup (IF HasF(e, "vid") THEN {e.vid} ELSE {})
        \cup (IF HasF(e, "vids") THEN ToSet(e.vids) ELSE {})
        \cup (IF HasF(e, "ids") THEN SeqIds(e.ids, 1, 2) ELSE {})
        \cup (IF HasF(e, "objs") THEN SeqIds(e.objs, 3, 4) ELSE {})
        \cup ToSet(e.led.new) )
OpKeys(e) ==
    (IF HasF(e, "k") /\ e.op # "Probe" THEN {e.k} ELSE {})
    \cup (IF HasF(e, "items") THEN {e.items[i][1] : i \in DOMAIN e.items} ELSE {})
    \cup (IF HasF(e, "objs") THEN {e.objs[i][1] : i \in DOMAIN e.objs} ELSE {})
KeyAddingOps == {"Insert", "Entry", "RawEntry", "SInsert", "SReplace", "SGetOrInsert", "SGetOrInsertOwned", "SGetOrInsertWith"}
H_Fault(e) ==
    LET s == e.s
        kind == e.fault.kind
        twoSlot == e.op \in {"Clone", "CloneFrom"}
        W == IF twoSlot THEN {e.d} ELSE IF e.op \in {"Eq", "SAlg"} THEN {} ELSE {s}
    IN
    /\ Chk("C07", "only_the_injected_panic", e, Panicked(e) /\ e.res.class = "fuse")
    /\ Frame(e, W)
    /\ (twoSlot /\ Alive(snap, s)) => Chk("C07,C11", "interrupted_clone_leaves_source_intact", e, SameSlot(Post(e, s), Pre(s)))
    /\ (~twoSlot /\ W # {} /\ Alive(snap, s) /\ Alive(e.st, s) /\ IsFull(Pre(s)) /\ IsFull(Post(e, s))) =>
        LET E == Cont(Pre(s))
            E2 == Cont(Post(e, s))
            lost == Keys(E) \ Keys(E2)
            removedByVerdict ==
                IF e.op = "Retain" THEN {e.calls[i][1] : i \in {j \in DOMAIN e.calls : e.calls[j][3] = 0}}
                ELSE IF e.op = "DrainFilter" THEN {e.calls[i][1] : i \in {j \in DOMAIN e.calls : e.calls[j][3] = 1}}
                ELSE {}
        IN
        /\ Chk("C07", "no_element_out_of_thin_air", e,
               /\ Keys(E2) \subseteq Keys(E) \cup OpKeys(e)
               /\ Ids(E2) \subseteq Ids(E) \cup NewIds(e))
        /\ Chk("C07", "survivors_keep_their_objects", e,
               \A x \in E2 : (Has(E, x[1]) /\ x[3] \in Ids(E) /\ x[3] # 0) => At(E, x[1])[3] = x[3])
        /\ Chk("C07", "loss_bound", e,
               CASE kind \in {1, 3} -> lost \subseteq {e.fault.victim} \cup removedByVerdict \cup
                                          \* an entry chain may have removed its own key in a step that completed
                                          \* before the faulted one; its closures only ever get that element
                                          (IF e.op \in {"Entry", "RawEntry"} THEN {e.k} ELSE {})
                 [] kind = 0 -> IF e.op \in KeyAddingOps
                                THEN lost \subseteq {e.fault.victim}    \* the element being relocated when its hash panicked
                                ELSE IF e.op = "Probe" THEN lost \subseteq {e.fault.victim}
                                ELSE IF e.op \in {"Get", "Remove", "RemoveEntry", "SRemove", "STake", "SContains", "SGet", "Iter", "Retain", "DrainFilter", "Clear", "Drain"}
                                THEN lost \subseteq removedByVerdict
                                ELSE lost \subseteq Keys(E)
                 [] OTHER -> lost = {})

(***************************************************************************)
(* Debug, rayon and serde                                                  *)
(***************************************************************************)
KV(E) == {<<x[1], x[2]>> : x \in E}
H_Debug(e) ==
    /\ Frame(e, {})
    /\ NoPanic(e)
    /\ IsFull(Pre(e.s)) =>
        Chk("C14", "debug_shows_contents", e,
            ToSet(e.dbg) = KV(Cont(Pre(e.s))) /\ Len(e.dbg) = Cardinality(Cont(Pre(e.s))))

\* visits: <<k, v, kid, vid, worker>>
VisitEl(kind, v) ==
    CASE kind = "par_keys" -> <<v[1], 0, v[3], 0>>
      [] kind \in {"par_values", "par_values_mut"} -> <<0, v[2], 0, v[4]>>
      [] OTHER -> <<v[1], v[2], v[3], v[4]>>
ParProj(kind, x) ==
    CASE kind = "par_keys" -> <<x[1], 0, x[3], 0>>
      [] kind \in {"par_values", "par_values_mut"} -> <<0, x[2], 0, x[4]>>
      [] OTHER -> x
H_Par(e) ==
    LET s == e.s
        mut == e.kind \in {"par_iter_mut", "par_values_mut", "mut_into_par"} /\ HasF(e, "add")
    IN
    /\ Frame(e, IF mut THEN {s} ELSE {})
    /\ NoPanic(e)
    /\ DropsAre(e, {})
    /\ Chk("C15", "par_workers_within_pool", e, \A i \in DOMAIN e.visits : e.visits[i][5] < e.threads)
    /\ BothFull(e, s) =>
        LET E == Cont(Pre(s))
            After == IF mut THEN {<<x[1], (x[2] + e.add) % 1000, x[3], x[4]>> : x \in E} ELSE E
            Shown == {ParProj(e.kind, x) : x \in After}
            Seen == {VisitEl(e.kind, e.visits[i]) : i \in DOMAIN e.visits}
            ambiguous == e.kind \in {"par_values", "par_values_mut"} /\ Hdr.elem # "heap"
        IN
        /\ Chk("C15", "par_visits_each_element_once", e,
               /\ Len(e.visits) = Cardinality(E)
               /\ (~ambiguous => (Seen = Shown /\ Cardinality(Seen) = Len(e.visits))))
        /\ Chk("C15,C01", "par_mut_writes_persist", e, IsFull(Post(e, s)) => Cont(Post(e, s)) = After)

H_ParEq(e) ==
    /\ Frame(e, {})
    /\ NoPanic(e)
    /\ (IsFull(Pre(e.s)) /\ IsFull(Pre(e.d)) /\ ~Panicked(e)) =>
        Chk("C15", "par_eq_is_content_equality", e,
            (e.res.b = 1) <=> (KV(Cont(Pre(e.s))) = KV(Cont(Pre(e.d)))))

H_ParExtend(e) ==
    LET s == e.s IN
    /\ Frame(e, {s})
    /\ NoPanic(e)
    /\ ((e.op = "FromPar" \/ BothFull(e, s)) /\ ~Panicked(e) /\ Alive(e.st, s)) =>
        LET X == InsertAll([E |-> IF e.op = "FromPar" THEN {} ELSE Cont(Pre(s)), drops |-> {}], e.objs, 1) IN
        /\ Chk("C15", "par_extend_equals_sequential_extend", e, IsFull(Post(e, s)) => KV(Cont(Post(e, s))) = KV(X.E))
        /\ Chk("C15", "par_extend_len", e, Post(e, s).len = Cardinality(X.E))
        /\ Chk("C06", "par_extend_drops", e, ToSet(e.led.drop) \subseteq NewIds(e) \cup Ids(Cont(Pre(s)))
                                            /\ Len(e.led.drop) = Cardinality(ToSet(e.led.drop)))

H_SPar(e) ==
    /\ Frame(e, {})
    /\ NoPanic(e)
    /\ (IsFull(Pre(e.s)) /\ IsFull(Pre(e.d)) /\ ~Panicked(e)) =>
        LET A == Keys(Cont(Pre(e.s)))
            B == Keys(Cont(Pre(e.d)))
            Y == {e.visits[i][1] : i \in DOMAIN e.visits}
            once == Cardinality(Y) = Len(e.visits)
        IN
        CASE e.kind = "par_union" -> Chk("C15", "par_union", e, once /\ Y = A \cup B)
          [] e.kind = "par_intersection" -> Chk("C15", "par_intersection", e, once /\ Y = A \cap B)
          [] e.kind = "par_difference" -> Chk("C15", "par_difference", e, once /\ Y = A \ B)
          [] e.kind = "par_symmetric_difference" -> Chk("C15", "par_symmetric_difference", e, once /\ Y = SymDiffS(A, B))
          [] e.kind = "par_is_subset" -> Chk("C15", "par_is_subset", e, (e.res.b = 1) <=> (A \subseteq B))
          [] e.kind = "par_is_superset" -> Chk("C15", "par_is_superset", e, (e.res.b = 1) <=> (B \subseteq A))
          [] e.kind = "par_is_disjoint" -> Chk("C15", "par_is_disjoint", e, (e.res.b = 1) <=> (A \cap B = {}))

\* Serde: toks = <<"map"|"seq", n>>, <<"u32", x>>..., <<"end", 0>>; order = iteration order <<k, v>>
H_Serde(e) ==
    LET s == e.s
        d == e.d
        isMap == Pre(s).ty = "map"
        n == Len(e.toks)
        payload == [i \in 1..(n - 2) |-> e.toks[i + 1][2]]
        expected == IF isMap THEN [i \in 1..(2 * Len(e.order)) |-> e.order[(i + 1) \div 2][IF i % 2 = 1 THEN 1 ELSE 2]]
                    ELSE [i \in 1..Len(e.order) |-> e.order[i][1]]
    IN
    /\ Frame(e, {d})
    /\ NoPanic(e)
    /\ Chk("C16", "serialize_leaves_source_unchanged", e, s # d => SameSlot(Post(e, s), Pre(s)))
    /\ IsFull(Pre(s)) =>
        LET E == Cont(Pre(s)) IN
        /\ Chk("C16", "serialize_emits_exact_length", e,
               n >= 2 /\ e.toks[1][1] = (IF isMap THEN "map" ELSE "seq") /\ e.toks[1][2] = Cardinality(E)
               /\ e.toks[n][1] = "end")
        /\ Chk("C16", "serialize_emits_each_element_once_in_iteration_order", e,
               /\ Len(e.order) = Cardinality(E) /\ ToSet(e.order) = KV(E)
               /\ payload = expected)
        /\ Chk("C16", "deserialize_yields_equal_collection", e,
               (Alive(e.st, d) /\ IsFull(Post(e, d))) =>
                   (KV(Cont(Post(e, d))) = KV(E) /\ Post(e, d).len = Cardinality(E)))

(***************************************************************************)
(* The trace behaviour                                                     *)
(***************************************************************************)
Dispatch(e) ==
    CASE e.op = "New" -> H_New(e)
      [] e.op = "NewDflt" -> H_NewDflt(e)
      [] e.op = "Insert" -> H_Insert(e)
      [] e.op = "Get" -> H_Get(e)
      [] e.op \in {"Remove", "RemoveEntry"} -> H_Remove(e)
      [] e.op = "Clear" -> H_Clear(e)
      [] e.op \in {"Reserve", "TryReserve", "ShrinkTo", "ShrinkToFit"} -> H_Capacity(e)
      [] e.op = "Retain" -> H_Retain(e)
      [] e.op = "DrainFilter" -> H_DrainFilter(e)
      [] e.op = "Drain" -> H_Drain(e)
      [] e.op = "IntoIter" -> H_IntoIter(e)
      [] e.op = "DropMap" -> H_DropMap(e)
      [] e.op = "Iter" -> IF e.kind = "zip" THEN H_IterZip(e) ELSE H_Iter(e)
      [] e.op \in {"Extend", "FromIter"} -> H_Extend(e)
      [] e.op \in {"Clone", "CloneFrom"} -> H_Clone(e)
      [] e.op = "Eq" -> H_Eq(e)
      [] e.op = "Entry" -> H_Entry(e)
      [] e.op = "RawEntry" -> H_RawEntry(e)
      [] e.op = "SAlg" -> H_SAlg(e)
      [] e.op = "Debug" -> H_Debug(e)
      [] e.op = "Probe" -> H_Probe(e)
      [] e.op = "Par" -> H_Par(e)
      [] e.op = "ParEq" -> H_ParEq(e)
      [] e.op \in {"ParExtend", "FromPar"} -> H_ParExtend(e)
      [] e.op = "SPar" -> H_SPar(e)
      [] e.op = "Serde" -> H_Serde(e)
      [] e.op = "SerdeBig" -> H_SerdeBig(e)
      [] e.op \in {"SInsert", "SReplace", "STake", "SRemove", "SContains", "SGet",
                   "SGetOrInsert", "SGetOrInsertOwned", "SGetOrInsertWith"} -> H_SetOp(e)
      [] OTHER -> Chk("TOOL", "unknown_op", e, FALSE)

\* what a forgotten Drain leaks: the elements it had not yielded yet, and the tables it owns
LeakOf(e) ==
    IF e.op = "Drain" /\ e.end = "forget" /\ Alive(snap, e.s)
    THEN [ids |-> IF IsFull(Pre(e.s)) THEN Ids(Cont(Pre(e.s)) \ ToSet(e.yield)) ELSE {},
          \* the main table, and the old one unless a next() call already went past its last
          \* element (RawDrain drops the exhausted old-table iterator, freeing that table)
          allocs |-> (IF Pre(e.s).mB > 1 THEN 1 ELSE 0)
                     \* (a call that found the old-table iterator exhausted: either it yielded a main-table element,
                     \* or -- main table empty -- it was the call that returned None)
                     + (IF IsSplit(Pre(e.s)) /\ ~(Len(e.yield) > Pre(e.s).oI
                                                  \/ (Len(e.yield) = Pre(e.s).oI /\ (HasF(e, "take") => e.take > Len(e.yield))))
                        THEN 1 ELSE 0)]
    ELSE IF Faulted(e) /\ e.fault.fired = 1 /\ e.op = "CloneFrom"
    THEN \* "an interrupted clone_from ... possibly leaking clones"
         [ids |-> ToSet(e.led.new) \ (AllIds(e.st) \cup ToSet(e.led.drop)), allocs |-> 0]
    ELSE [ids |-> {}, allocs |-> 0]

Ctx0 == [postFault |-> FALSE, baseline |-> FALSE, cloned |-> {}, leakUnknown |-> FALSE]
Init == /\ l = 2 /\ snap = <<>> /\ leakIds = {} /\ leakAllocs = 0 /\ ctx = Ctx0

Step ==
    /\ l <= Len(Rec)
    /\ LET e == Rec[l] IN
       CASE e.op = "Reset" ->
                \* the object ledger is global to the process; the allocation counter is re-based
                /\ snap' = <<>> /\ leakIds' = leakIds /\ leakAllocs' = 0
                /\ ctx' = [Ctx0 EXCEPT !.baseline = HasF(e, "baseline"), !.leakUnknown = ctx.leakUnknown]
         [] e.op = "Skip" -> UNCHANGED <<snap, leakIds, leakAllocs, ctx>>
         [] e.op = "Snap" ->
                \* state reached by a silently replayed prefix (crash-point enumeration)
                /\ GlobalMon(e, leakAllocs) = TRUE
                /\ snap' = e.st /\ leakIds' = ToSet(e.leaked) /\ UNCHANGED <<leakAllocs, ctx>>
         [] e.op = "EndRun" ->
                \* (if an iterator was forgotten while the contents were too large to be logged, only
                \* the known part of the leak can be compared)
                /\ Chk("C06", "nothing_leaks", e,
                       /\ (IF ctx.leakUnknown THEN leakIds \subseteq ToSet(e.live_ids) ELSE ToSet(e.live_ids) = leakIds)
                       /\ (HasF(e, "par") \/ e.live_allocs = leakAllocs)) = TRUE
                /\ (HasF(e, "zl") =>
                       Chk("C06", "zst_all_dropped_exactly_once", e,
                           IF ctx.postFault THEN e.zl[1] >= 0 /\ e.zl[2] >= 0 ELSE e.zl[1] = 0 /\ e.zl[2] = 0)) = TRUE
                /\ UNCHANGED <<snap, leakIds, leakAllocs, ctx>>
         [] OTHER ->
                LET lk == LeakOf(e) IN
                \* (= TRUE: evaluated as one expression, never decomposed into sub-actions)
                /\ (IF Faulted(e) /\ e.fault.fired = 1 THEN H_Fault(e) ELSE Dispatch(e)) = TRUE
                /\ GlobalMon(e, leakAllocs + lk.allocs) = TRUE
                /\ snap' = e.st
                /\ leakIds' = leakIds \cup lk.ids
                /\ leakAllocs' = leakAllocs + lk.allocs
                /\ ctx' = [ctx EXCEPT !.postFault = @ \/ (Faulted(e) /\ e.fault.fired = 1),
                                      !.leakUnknown = @ \/ (e.op = "Drain" /\ e.end = "forget" /\ Alive(snap, e.s)
                                                             /\ ~IsFull(Pre(e.s)) /\ Len(e.yield) < Pre(e.s).len),
                                      !.cloned = IF e.op \in {"Clone", "CloneFrom"} THEN @ \cup {e.d} ELSE @]
    /\ l' = l + 1

Spec == Init /\ [][Step]_vars

\* acceptance: every line of the trace was consumed
Accepted ==
    LET d == TLCGet("stats").diameter IN
    IF d = Len(Rec) THEN TRUE
    ELSE /\ PrintT(<<"TRACE-REJECTED at line", d + 1, IF d + 1 <= Len(Rec) THEN Rec[d + 1].op ELSE "?">>)
         /\ FALSE
=============================================================================

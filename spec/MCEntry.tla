------------------------------- MODULE MCEntry -------------------------------
EXTENDS MCGriddle

(***************************************************************************)
(* C12: entry / raw-entry handles as *processes*.                          *)
(*                                                                         *)
(* A handle (map.rs: OccupiedEntry / RawOccupiedEntryMut {elem: Bucket     *)
(* {bucket, in_main}, table}, VacantEntry / RawVacantEntryMut, or the      *)
(* `&mut V` an inserting call returns) is held across steps while the map  *)
(* is mutably borrowed.  At the content level a bucket is identified by    *)
(* the table it is in and the key it held when the handle was made: the    *)
(* old table never receives insertions, and the main table is not touched  *)
(* by anything but the handle itself while the handle lives, so the bucket *)
(* designates the element iff that key is still in that table (and, for    *)
(* the old table, the table has not been freed).  Every accessor goes      *)
(* through the *handle's* (table, bucket), not through a fresh lookup:     *)
(* that is what makes a carry between two accessors a defect.              *)
(*                                                                         *)
(*   h = [on, occ, k, loc, ref]                                            *)
(*       occ  occupied (TRUE) or vacant handle                             *)
(*       loc  "main" / "old": Bucket::in_main of an occupied handle        *)
(*       ref  the handle has been turned into a plain `&mut V`             *)
(*            (into_mut, or_insert*, or_default, VacantEntry::insert):     *)
(*            only reads and writes through it remain                      *)
(*                                                                         *)
(* Mode describes the code: "tree" = as it is; the others are changes an   *)
(* independent agent produced against the real crate (seeds S18/S23/S27,   *)
(* S38) and serve as negative controls (tools/selftest.sh).                *)
(***************************************************************************)
CONSTANT Mode
VARIABLE h
hvars == <<M, O, mB, mG, oP, oB, cur, cN, err, h>>

HOff == [on |-> FALSE, occ |-> FALSE, k |-> 0, loc |-> "-", ref |-> FALSE]
LocOf(k) == IF k \in KeysOf(M) THEN "main" ELSE IF k \in KeysOf(O) THEN "old" ELSE "-"

\* the bucket of an occupied handle still holds its element in state P
HandleOK(P, hh) ==
    \/ (hh.loc = "main" /\ hh.k \in KeysOf(P.M))
    \/ (hh.loc = "old" /\ P.oP /\ hh.k \in KeysOf(P.O))
HandleVal(P, hh) == IF hh.loc = "main" THEN ValAt(P.M, hh.k) ELSE ValAt(P.O, hh.k)
WriteAt(P, hh, w) ==
    IF hh.loc = "main" THEN [P EXCEPT !.M = Drop(P.M, {hh.k}) \cup {<<hh.k, w>>}]
    ELSE [P EXCEPT !.O = Drop(P.O, {hh.k}) \cup {<<hh.k, w>>}]
StaleErr(P, hh) == IF hh.loc = "old" /\ ~P.oP THEN "handle_into_freed_old_table" ELSE "handle_reads_vacated_bucket"

\* entry(k) / raw_entry_mut().from_key(k) / from_hash: find() main first, then old
Lookup(k) ==
    /\ Ok /\ ~h.on
    /\ h' = [on |-> TRUE, occ |-> k \in AllK, k |-> k, loc |-> LocOf(k), ref |-> FALSE]
    /\ UNCHANGED vars

\* get_mut + write, and_modify, OccupiedEntry::insert, RawOccupiedEntryMut::insert / insert_key,
\* replace_key, a write through a returned reference: in place, *no carry* (unlike HashMap::insert)
HWrite_MvSet == IF Mode = "occ_insert_carries" /\ h.loc = "old" /\ ~h.ref /\ oP THEN CarrySets(St) ELSE {{}}
HWrite_Post(w, mv, ru) ==
    IF ~HandleOK(St, h) THEN Fail(StaleErr(St, h))
    ELSE LET P1 == WriteAt(St, h, w) IN
         IF Mode = "occ_insert_carries" /\ h.loc = "old" /\ ~h.ref THEN Carry(P1, mv, 0, ru) ELSE P1
HWrite(w, mv, ru) ==
    /\ Ok /\ h.on /\ h.occ
    /\ ru <= Min(HB!Lost(Main), Cardinality(mv))
    /\ Apply(HWrite_Post(w, mv, ru))
    /\ UNCHANGED h

\* into_mut / into_key_value / or_insert* / or_default on an occupied entry
HIntoMut_MvSet == IF Mode = "or_insert_carries_first" /\ h.loc = "old" /\ oP THEN CarrySets(St) ELSE {{}}
HIntoMut_Post(mv, ru) ==
    IF Mode = "or_insert_carries_first" /\ h.loc = "old" /\ oP THEN Carry(St, mv, 0, ru) ELSE St
HIntoMut(mv, ru) ==
    /\ Ok /\ h.on /\ h.occ /\ ~h.ref
    /\ ru <= Min(HB!Lost(Main), Cardinality(mv))
    /\ Apply(HIntoMut_Post(mv, ru))
    /\ h' = [h EXCEPT !.ref = TRUE]

\* remove / remove_entry through the handle: RawTable::remove(elem) -- frees an emptied old table
HRemove_Post(t) ==
    IF ~HandleOK(St, h) THEN Fail(StaleErr(St, h))
    ELSE IF h.loc = "main" THEN [St EXCEPT !.M = Drop(M, {h.k}), !.mG = IF t THEN mG ELSE mG + 1]
    ELSE LET Q == [St EXCEPT !.O = Drop(O, {h.k}), !.cur = cur \ {h.k}, !.cN = IF h.k \in cur THEN cN - 1 ELSE cN]
         IN IF Q.O = {} THEN NoOldRec(Q) ELSE Q
HRemove_En(t) == Ok /\ h.on /\ h.occ /\ ~h.ref /\ (t => (h.loc = "main" /\ HB!TombPossible(Main)))
HRemove(t) == HRemove_En(t) /\ Apply(HRemove_Post(t)) /\ h' = HOff

Outs == {<<"none", 0>>, <<"unwind", 0>>} \cup ({"some"} \X Val)
\* replace_entry_with / and_replace_entry_with: replace_bucket_with(elem, f)
\*   out = "none": erased in place (never frees the old table), the handle becomes vacant
\*   out = "unwind": the closure panicked: the element handed to it is gone, so is the handle
\*   otherwise <<"some", w>>: the value is replaced in the same bucket, the handle stays occupied
HReplace_Post(out, nt) ==
    IF ~HandleOK(St, h) THEN Fail(StaleErr(St, h))
    ELSE IF out[1] \in {"none", "unwind"}
    THEN IF h.loc = "main" THEN [St EXCEPT !.M = Drop(M, {h.k}), !.mG = mG + 1 - nt]
         ELSE [St EXCEPT !.O = Drop(O, {h.k}), !.cur = cur \ {h.k}, !.cN = IF h.k \in cur THEN cN - 1 ELSE cN]
    ELSE WriteAt(St, h, out[2])
HReplace_En(out, nt) ==
    /\ Ok /\ h.on /\ h.occ /\ ~h.ref
    /\ (nt = 1 => (out[1] \in {"none", "unwind"} /\ h.loc = "main" /\ HB!TombPossible(Main)))
HReplace(out, nt) ==
    /\ HReplace_En(out, nt) /\ Apply(HReplace_Post(out, nt))
    /\ h' = IF out[1] = "unwind" THEN HOff
            ELSE IF out[1] = "none" THEN [h EXCEPT !.occ = FALSE, !.loc = "-"]
            ELSE h

\* VacantEntry::insert / or_insert* / or_default (-> &mut V), insert_entry / Entry::insert /
\* RawVacantEntryMut::insert* (-> occupied handle): RawTable::insert = InsertNew, whose carry runs
\* *after* the bucket was taken; the bucket is in the main table and carry() only adds to it without
\* growing, so the handle designates the new element
HVacInsert_Post(v, mv, ru) ==
    IF h.k \in AllK THEN Fail("vacant_handle_for_present_key")
    ELSE InsertNew_Post(h.k, v, mv, ru)
HVacInsert(v, mv, ru, keep) ==
    /\ Ok /\ h.on /\ ~h.occ
    /\ (h.k \notin AllK => InsertNew_En(h.k, v, mv, ru))
    /\ (h.k \in AllK => (mv = {} /\ ru = 0))
    /\ Apply(HVacInsert_Post(v, mv, ru))
    /\ LET P == HVacInsert_Post(v, mv, ru) IN
       h' = IF P = St THEN HOff         \* documented capacity-overflow panic
            ELSE [h EXCEPT !.occ = TRUE, !.loc = "main", !.ref = ~keep]

HEnd == h.on /\ h' = HOff /\ UNCHANGED vars

HNext ==
    \/ (~h.on /\ Next /\ UNCHANGED h)
    \/ \E k \in Key : Lookup(k)
    \/ \E w \in Val, mv \in HWrite_MvSet, ru \in 0..1 : HWrite(w, mv, ru)
    \/ \E mv \in HIntoMut_MvSet, ru \in 0..1 : HIntoMut(mv, ru)
    \/ \E t \in TombSet : HRemove(t)
    \/ \E out \in Outs, nt \in 0..1 : HReplace(out, nt)
    \/ \E v \in Val, mv \in MvFor, ru \in RuSet, keep \in BOOLEAN : HVacInsert(v, mv, ru, keep)
    \/ HEnd
MCEntrySpec == (MCInit /\ h = HOff) /\ [][HNext]_hvars

HTypeOK == h \in [on : BOOLEAN, occ : BOOLEAN, k : Key \cup {0}, loc : {"main", "old", "-"}, ref : BOOLEAN]

(***************************************************************************)
(* C12, first and second sentence: the handle reports Occupied exactly     *)
(* when the key is present, and designates that same element wherever it   *)
(* is stored -- in every state in which a handle is alive, i.e. also after *)
(* every accessor that returned the handle or a reference.                 *)
(***************************************************************************)
HandleCoherent ==
    (Ok /\ h.on) =>
        IF h.occ THEN /\ HandleOK(St, h)
                      /\ h.loc = LocOf(h.k)                       \* the element is where the handle says
                      /\ {HandleVal(St, h)} = RefLookup(h.k)      \* a read through it = a lookup
        ELSE h.k \notin AllK

(***************************************************************************)
(* Every accessor changes the abstract contents as the reference map does  *)
(* (writes through the handle are seen by later lookups; removal removes   *)
(* exactly that key; replace_entry_with(None) + insert leaves exactly one  *)
(* element for the key; a panicking closure loses at most its element).    *)
(***************************************************************************)
EntryRefines ==
    (Ok /\ h.on) =>
    /\ h.occ =>
         \A w \in Val, mv \in HWrite_MvSet, ru \in 0..1 :
            ru <= Min(HB!Lost(Main), Cardinality(mv)) =>
               LET P == HWrite_Post(w, mv, ru) IN Good(P) => AbsOf(P) = Drop(All, {h.k}) \cup {<<h.k, w>>}
    /\ (h.occ /\ ~h.ref) =>
         /\ \A mv \in HIntoMut_MvSet, ru \in 0..1 :
               ru <= Min(HB!Lost(Main), Cardinality(mv)) =>
                  LET P == HIntoMut_Post(mv, ru) IN Good(P) => AbsOf(P) = All
         /\ \A t \in TombSet : HRemove_En(t) =>
               LET P == HRemove_Post(t) IN Good(P) => AbsOf(P) = Drop(All, {h.k})
         /\ \A out \in Outs, nt \in 0..1 : HReplace_En(out, nt) =>
               LET P == HReplace_Post(out, nt) IN
               Good(P) => AbsOf(P) = (IF out[1] \in {"none", "unwind"} THEN Drop(All, {h.k})
                                      ELSE Drop(All, {h.k}) \cup {<<h.k, out[2]>>})
    /\ ~h.occ =>
         \A v \in Val, mv \in MvFor, ru \in RuSet :
            (h.k \notin AllK /\ InsertNew_En(h.k, v, mv, ru)) =>
               LET P == HVacInsert_Post(v, mv, ru) IN
               Good(P) => (AbsOf(P) = All \cup {<<h.k, v>>} \/ (P = St /\ mG = 0))

(***************************************************************************)
(* The counters of every handle step are what GriddleCount's actions give: *)
(* handle steps add no structural behaviour of their own (this is what     *)
(* lets TraceCount / TraceGriddle fold a recorded chain into Ins/Rm/Er).   *)
(***************************************************************************)
EntryRefinesCount ==
    (Ok /\ Cursor /\ h.on /\ (h.occ => HandleOK(St, h)) /\ Mode = "tree") =>
    /\ (h.occ /\ ~h.ref) =>
         /\ \A t \in TombSet : HRemove_En(t) =>
               CntOf(HRemove_Post(t)) = (IF h.loc = "main" THEN GC!Removed_Post(IF t THEN 0 ELSE 1, IF t THEN 1 ELSE 0, 0)
                                         ELSE GC!Removed_Post(0, 0, 1))
         /\ \A nt \in 0..1 : HReplace_En(<<"none", 0>>, nt) =>
               CntOf(HReplace_Post(<<"none", 0>>, nt)) = (IF h.loc = "main" THEN GC!Erased_Post(1 - nt, nt, 0)
                                                   ELSE GC!Erased_Post(0, 0, 1))
    /\ h.occ => \A w \in Val : CntOf(HWrite_Post(w, {}, 0)) = CntOf(St)
=============================================================================

------------------------------- MODULE MCCount -------------------------------
(* Model-checking harness for GriddleCount: argument sets, Next, bounds.    *)
EXTENDS GriddleCount

CONSTANTS MaxB,      \* state constraint: explored bucket bound
          ArgMode,   \* "boundary": state-relative boundary arguments; "all": every n, m in 0..MaxUsize
          InitCaps   \* capacities for with_capacity(c) initial states

Free == mG - OldLen
Clip(S) == {x \in S : x >= 0 /\ x <= MaxUsize}
InsLen == CeilDiv(Len, R)

ResArgs ==
    IF ArgMode = "all" THEN 0..MaxUsize
    ELSE Clip({0, 1, 2, Free - 1, Free, Free + 1, Len, Capacity, Capacity + 1, 2 * Capacity,
               MaxUsize, MaxUsize - 1, MaxUsize - OldLen, MaxUsize - OldLen + 1, MaxUsize - OldLen - 1,
               MaxUsize - Len, MaxUsize - Len - InsLen, MaxUsize - Len - InsLen + 1,
               MaxUsize - Len - 2 * InsLen, MaxUsize - Len - 2 * InsLen - 1,
               (MaxUsize \div 2), (MaxUsize \div 2) + 1, (MaxUsize \div 2) - Len,
               (MaxUsize \div 8), (MaxUsize \div 8) + 1, (MaxUsize \div 8) - Len - InsLen,
               (MaxUsize \div 8) - Len - InsLen + 1, (MaxUsize \div 8) - Len - InsLen - 1})

ShrArgs ==
    IF ArgMode = "all" THEN 0..MaxUsize
    ELSE Clip({0, 1, Len - 1, Len, Len + 1, ShrinkNeed - 1, ShrinkNeed, ShrinkNeed + 1,
               Capacity - 1, Capacity, Capacity + 1, Cap(mB \div 2), Cap(mB \div 2) + 1,
               MaxUsize, MaxUsize \div 8, (MaxUsize \div 8) + 1})

\* lower size hints handed to extend()
HintArgs ==
    IF ArgMode = "all" THEN 0..MaxUsize
    ELSE Clip({0, 1, 2 * Free + 1, 2 * Free + 2, 2 * Capacity + 3, MaxUsize, MaxUsize - 1, MaxUsize \div 2, (MaxUsize \div 4) + 1})

RuAll == {0, RuMaxAll}

\* representative destination tables for clone_from: unallocated, empty, empty with tombstones
\* (the D6 shape), full; every bucket count up to the bound
DestTables ==
    {HB!NewTbl} \cup
    UNION {{HB!Tbl(b, 0, Cap(b)), HB!Tbl(b, Cap(b), 0)} \cup
           (IF b >= GW THEN {HB!Tbl(b, 0, Cap(b) - 3), HB!Tbl(b, 0, 2), HB!Tbl(b, 2, Cap(b) - 5)} ELSE {})
           : b \in {x \in {4, 8, 16, 32, 64, 128, 256} : x <= MaxB}}

\* C11 (count level): clone / clone_from leave a well-formed, unsplit map with every element of the source
CloneContract ==
    Ok => /\ \A ru \in RuAll : CloneSelf_En(ru) =>
                LET P == CloneSelf_Post(ru) IN P.err = "none" => (PLen(P) = Len /\ ~P.oP /\ PCap(P) >= Len)
          /\ \A D \in DestTables, ru \in RuAll : CloneFromInto_En(D, ru) =>
                LET P == CloneFromInto_Post(D, ru) IN P.err = "none" => (PLen(P) = Len /\ ~P.oP /\ PCap(P) >= Len)

MCInit == \E c \in InitCaps : InitWith(c)

Next ==
    \/ \E ru \in RuIns : InsertNew(ru)
    \/ \E ru \in RuIns : OverwriteOld(ru)
    \/ \E tomb \in BOOLEAN : (mI > 0 /\ Removed(IF tomb THEN 0 ELSE 1, IF tomb THEN 1 ELSE 0, 0))
    \/ (oP /\ oI > 0 /\ Removed(0, 0, 1))
    \/ (oP /\ oI > 0 /\ Erased(0, 0, 1))
    \/ (oP /\ oI > 1 /\ Erased(0, 0, oI))
    \/ Clear
    \/ \E f \in BOOLEAN : Drain(f)
    \/ \E n \in ResArgs, ru \in RuAll : ReserveCall(n, ru)
    \/ \E m \in ShrArgs : ShrinkTo(m)
    \/ \E h \in HintArgs, ru \in RuAll : ExtendReserve(h, ru)
    \/ \E ru \in RuAll : CloneSelf(ru)
    \/ \E D \in DestTables, ru \in RuAll : CloneFromInto(D, ru)

MCSpec == MCInit /\ [][Next]_vars

Bounded == mB <= MaxB /\ (oP => oB <= MaxB)

\* C10: a (try_)reserve(n) that returns normally leaves capacity >= len + n and never loses
\* elements; Err/panic leave the contents unchanged and happen only when the request
\* overflows usize or exceeds the allocation limit
ReserveContract ==
    Ok => \A n \in ResArgs, ru \in RuAll :
        Reserve_En(n, ru) =>
            LET P == Reserve_Post(n, ru) IN
            P.err = "none" =>
               /\ PLen(P) = Len
               /\ \A f \in BOOLEAN :
                    /\ ReserveKind(n, f) = "ok" => PCap(P) >= Len + n
                    /\ ReserveKind(n, f) # "ok" =>
                           \/ OldLen + n > MaxUsize
                           \/ GrowWant(Len, n) > MaxUsize
                           \/ HB!WithCapB(GrowWant(Len, n)) = HB!Overflow
\* C10: shrink_to never enlarges the table, never loses elements,
\* keeps capacity >= max(len, min(m, previous capacity))
ShrinkContract ==
    Ok => \A m \in ShrArgs :
        LET P == ShrinkTo_Post(m) IN
            /\ P.mB <= mB
            /\ PCap(P) >= Max(Len, Min(m, Capacity))
            /\ PLen(P) = Len

TwoTables == LiveTables <= 2

\* Lemma used by the unbounded argument: with_capacity(c) really has capacity >= c
CapLemma == \A c \in 1..4096 : HB!WithCapB(c) # HB!Overflow => Cap(HB!WithCapB(c)) >= c
=============================================================================

CONSTANTS
  Workers = {1, 2}
  NGm = 3
  NGo = 2
  GWm = 2
  SplitBug = FALSE
SPECIFICATION Spec
INVARIANTS AtMostOnce NoOverlap MainBeforeOld Covered ExactlyOnceAtEnd
PROPERTY Terminates
CHECK_DEADLOCK FALSE

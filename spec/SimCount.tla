------------------------------ MODULE SimCount ------------------------------
(***************************************************************************)
(* Behaviour generator: the GriddleCount actions with a history variable   *)
(* `act` naming the abstract operation and its arguments, so that          *)
(* `tlc -simulate` prints behaviours that the conformance harness can      *)
(* replay on the real crate (spec -> implementation direction).            *)
(***************************************************************************)
EXTENDS MCCount, Json

VARIABLE act
svars == <<mB, mI, mG, oP, oB, oI, cI, err, act>>

SimInit == /\ \E c \in InitCaps : InitWith(c) /\ act = [op |-> "New", cap |-> c]

A(name) == act' = [op |-> name]
SimNext ==
    \/ \E ru \in RuIns : InsertNew(ru) /\ A("InsertNew")
    \/ \E ru \in RuIns : OverwriteOld(ru) /\ A("OverwriteOld")
    \/ \E tomb \in BOOLEAN : (mI > 0 /\ Removed(IF tomb THEN 0 ELSE 1, IF tomb THEN 1 ELSE 0, 0)) /\ A("RemoveMain")
    \/ (oP /\ oI > 0 /\ Removed(0, 0, 1)) /\ A("RemoveOld")
    \/ (oP /\ oI > 0 /\ Erased(0, 0, 1)) /\ A("EraseOld")
    \/ (oP /\ oI > 1 /\ Erased(0, 0, oI)) /\ A("EraseOldAll")
    \/ (mI > 1 /\ \E nt \in 0..1 : Erased(mI - nt, nt, 0)) /\ A("EraseMainAll")
    \/ Clear /\ A("Clear")
    \/ \E f \in BOOLEAN : Drain(f) /\ act' = [op |-> "Drain", forget |-> f]
    \/ \E n \in ResArgs, ru \in RuAll, fal \in BOOLEAN :
          ReserveCall(n, ru) /\ act' = [op |-> IF fal THEN "TryReserve" ELSE "Reserve", n |-> n,
                                          rel |-> n - Free, big |-> n > 100000]
    \/ \E m \in ShrArgs : ShrinkTo(m) /\ act' = [op |-> "ShrinkTo", n |-> m, rel |-> m - Len, big |-> m > 100000]
    \/ \E ru \in RuAll : CloneSelf(ru) /\ A("CloneSelf")

SimSpec == SimInit /\ [][SimNext]_svars

\* printed for every state of every simulated behaviour; level 1 starts a new behaviour
Emit == PrintT(<<"SIM", TLCGet("level"), ToJson(act), mB, mI, mG, oP, oB, oI, cI>>)
SimBounded == mB <= MaxB /\ (oP => oB <= MaxB)
=============================================================================

CONSTANTS
  Keys = {1, 2, 3, 4}
  Hashers = {"h1", "h2"}
  FixD9 = TRUE
SPECIFICATION Spec
INVARIANTS Findable NoDup Complete
CHECK_DEADLOCK FALSE

CONSTANTS
  Key = {1, 2, 3, 4, 5, 6}
  Val = {0, 1}
  R = 2
  GW = 4
  MaxUsize = 16777215
  ElemSize = 8
  MaxB = 32
  ResArgs = {0, 1, 2, 3, 6, 12, 24}
  ShrArgs = {0, 1, 3, 4, 7, 8}
  InitCaps = {0, 4}
SPECIFICATION MCFaultSpec
CONSTRAINT Bounded
INVARIANTS FaultLossBound TypeOK Disjoint Cursor Shape NoErr CapGeLen Headroom IterExact RefinesRefMap RefinesCount
CHECK_DEADLOCK FALSE

CONSTANTS
  R = 8
  GW = 16
  MaxUsize = 16777215
  ElemSize = 8
  FixD1 = TRUE
  FixD4 = TRUE
  FixD6 = TRUE
  FixD8 = TRUE
  Debug = FALSE
  MaxB = 128
  ArgMode = "boundary"
  InitCaps = {0, 3, 4, 28}
SPECIFICATION SimSpec
CONSTRAINT SimBounded
CHECK_DEADLOCK FALSE

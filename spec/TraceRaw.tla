------------------------------ MODULE TraceRaw ------------------------------
(***************************************************************************)
(* Validation of executions of the crate's OWN test suite.                 *)
(*                                                                         *)
(* With `--cfg griddle_verif` and GRIDDLE_VERIF_TRACE set, every           *)
(* critical section of src/raw/mod.rs (insert, carry, remove, erase,       *)
(* replace_bucket_with, reserve, try_reserve, shrink_to, clear, clone,     *)
(* clone_from) writes one self-contained record: the structural counters   *)
(* of the table on entry and on exit.  `cargo test` of the unchanged test  *)
(* files (unit tests: R = 4; integration tests: R = 8) produces a few      *)
(* hundred thousand of them; the orchestrator splits them by R,            *)
(* de-duplicates, and this module requires every record to be an instance  *)
(* of the corresponding GriddleCount action:                               *)
(*      post \in { A_Post(params) : params enabled in pre }                *)
(* One record = one spec action (the spec has one action per critical      *)
(* section), so no ordering, table identity or key is needed.  A mismatch  *)
(* is reported as <<"STRICT-FAIL", name, line, action>> (spec drift).      *)
(***************************************************************************)
EXTENDS Integers, Sequences, FiniteSets, SequencesExt, TLC, Json, IOUtils

Rec == ndJsonDeserialize(IOEnv.TRACE)
Hdr == Rec[1]
RR == Hdr.R
GWW == Hdr.GW
MU == 16777215

VARIABLES l
vars == <<l>>

GC(r) == INSTANCE GriddleCount WITH
            R <- RR, GW <- GWW, MaxUsize <- MU, ElemSize <- 8,
            FixD1 <- TRUE, FixD4 <- TRUE, FixD6 <- TRUE, FixD8 <- TRUE, Debug <- TRUE,
            mB <- r.mB, mI <- r.mI, mG <- r.mG, oP <- r.oP, oB <- r.oB, oI <- r.oI, cI <- r.cI, err <- r.err
HB == INSTANCE Hashbrown WITH GW <- GWW, MaxUsize <- MU, ElemSize <- 8

\* [main buckets, main len, main capacity, split, old buckets, old len, cursor count]
Cnt(c) == [mB |-> c[1], mI |-> c[2], mG |-> c[3] - c[2], oP |-> c[4] = 1, oB |-> c[5], oI |-> c[6], cI |-> c[7],
           err |-> "none"]
NoOld(P) == [P EXCEPT !.oP = FALSE, !.oB = 0, !.oI = 0, !.cI = 0]

Strict(name, e, cond, detail) ==
    IF cond THEN TRUE ELSE PrintT(<<"STRICT-FAIL", name, l, e.a>>) /\ PrintT(<<"STRICT-DETAIL", detail>>)

RuS == 0..(RR + 1)
InsertNewPosts(P) == {GC(P)!InsertNew_Post(ru) : ru \in {x \in RuS : GC(P)!InsertNew_En(x)}}
CarryPosts(P) ==
    IF ~P.oP THEN {P}
    ELSE IF P.oI = 0 THEN {NoOld(P)}          \* the cursor returns None at once: the old table is dropped
    ELSE {GC(P)!OverwriteOld_Post(ru) : ru \in {x \in RuS : GC(P)!OverwriteOld_En(x)}}
RemovedPosts(P, nm, no) ==
    {GC(P)!Removed_Post(nm - nt, nt, no) : nt \in {x \in 0..nm : GC(P)!Removed_En(nm - x, x, no)}}
ErasedPosts(P, nm, no) ==
    {GC(P)!Erased_Post(nm - nt, nt, no) : nt \in {x \in 0..nm : GC(P)!Erased_En(nm - x, x, no)}}
ReservePosts(P, n) == {GC(P)!Reserve_Post(n, ru) : ru \in {x \in 0..GC(P)!RuMaxAll : GC(P)!Reserve_En(n, x)}}
ClonePosts(P) == {GC(P)!CloneSelf_Post(ru) : ru \in {x \in 0..GC(P)!RuMaxAll : GC(P)!CloneSelf_En(x)}}

Check(e) ==
    LET P == Cnt(e.pre)
        Q == Cnt(e.post)
        inMain == e.n = 1
    IN
    CASE e.a = "insert" -> Strict("raw_insert", e, Q \in InsertNewPosts(P), <<P, Q, InsertNewPosts(P)>>)
      [] e.a = "carry" -> Strict("raw_carry", e, Q \in CarryPosts(P), <<P, Q, CarryPosts(P)>>)
      [] e.a = "remove" ->
             Strict("raw_remove", e, Q \in (IF inMain THEN RemovedPosts(P, 1, 0) ELSE RemovedPosts(P, 0, 1)), <<inMain, P, Q>>)
      [] e.a = "erase" ->
             Strict("raw_erase", e, Q \in (IF inMain THEN ErasedPosts(P, 1, 0) ELSE ErasedPosts(P, 0, 1)), <<inMain, P, Q>>)
      [] e.a = "replace_bucket_with" ->
             Strict("raw_replace_bucket_with", e,
                    Q \in ({P} \cup (IF inMain THEN ErasedPosts(P, 1, 0) ELSE ErasedPosts(P, 0, 1))), <<inMain, P, Q>>)
      [] e.a \in {"reserve", "try_reserve"} ->
             e.n <= MU => Strict("raw_reserve", e, Q \in ReservePosts(P, e.n), <<e.n, P, Q, ReservePosts(P, e.n)>>)
      [] e.a = "shrink_to" ->
             e.n <= MU => Strict("raw_shrink_to", e, Q = GC(P)!ShrinkTo_Post(e.n), <<e.n, P, Q, GC(P)!ShrinkTo_Post(e.n)>>)
      [] e.a = "clear" -> Strict("raw_clear", e, Q = GC(P)!Clear_Post, <<P, Q>>)
      [] e.a = "clone" -> Strict("raw_clone", e, Q \in ClonePosts(P), <<P, Q, ClonePosts(P)>>)
      [] e.a = "clone_from" ->
             LET D == Cnt(e.pre2)
                 Dt == HB!Tbl(D.mB, D.mI, D.mG)
                 cands == {LET T == GC(P)!CloneFromMain(Dt, ru) IN
                           [mB |-> T.b, mI |-> T.i, mG |-> T.g, oP |-> FALSE, oB |-> 0, oI |-> 0, cI |-> 0, err |-> "none"]
                           : ru \in 0..(IF P.oP THEN P.cI ELSE 0)}
             IN Strict("raw_clone_from", e, Q \in cands, <<P, D, Q, cands>>)
      [] OTHER -> Strict("raw_unknown_action", e, FALSE, <<e.a>>)

Init == l = 2
Step == /\ l <= Len(Rec)
        /\ Check(Rec[l]) = TRUE
        /\ l' = l + 1
Spec == Init /\ [][Step]_vars

Accepted ==
    LET d == TLCGet("stats").diameter IN
    IF d = Len(Rec) THEN TRUE
    ELSE /\ PrintT(<<"TRACE-REJECTED at line", d + 1, IF d + 1 <= Len(Rec) THEN Rec[d + 1].a ELSE "?">>)
         /\ FALSE
=============================================================================

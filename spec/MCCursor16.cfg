CONSTANTS
  NB = 16
  GWc = 4
  Mode = "fixed"
  DebugAsserts = TRUE
  Zst = FALSE
SPECIFICATION Spec
INVARIANTS TypeOK CursorExact NoErr
CHECK_DEADLOCK FALSE

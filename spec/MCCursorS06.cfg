CONSTANTS
  NB = 8
  GWc = 4
  Mode = "reflect_insert"
  DebugAsserts = TRUE
  Zst = FALSE
SPECIFICATION Spec
INVARIANTS TypeOK CursorExact NoErr
CHECK_DEADLOCK FALSE

------------------------------- MODULE RefMap -------------------------------
(***************************************************************************)
(* What users rely on: a sequential key -> value map (and, with v = 0,     *)
(* a mathematical set).  Pure operators over a set E of elements           *)
(*        <<k, v, kid, vid>>                                               *)
(* (key, value, identity of the stored key object, identity of the stored  *)
(* value object; identity 0 = untracked).  Every public operation is a     *)
(* function  (E, arguments) -> [E, res..., drops]  where drops is the set  *)
(* of object identities the *map* must drop during the call.               *)
(***************************************************************************)
EXTENDS Integers, Sequences, FiniteSets, SequencesExt, TLC

Keys(E) == {e[1] : e \in E}
Has(E, k) == \E e \in E : e[1] = k
At(E, k) == CHOOSE e \in E : e[1] = k
Without(E, k) == {e \in E : e[1] # k}
WellFormed(E) == \A a, b \in E : a[1] = b[1] => a = b
Ids(E) == ({e[3] : e \in E} \cup {e[4] : e \in E}) \ {0}
NZ(S) == S \ {0}
Put(E, e) == Without(E, e[1]) \cup {e}

\* insert(k, v): a present key keeps its stored key object; the argument key is dropped and
\* the displaced value is handed back
MInsert(E, k, v, kid, vid) ==
    IF Has(E, k)
    THEN LET o == At(E, k) IN
         [E |-> Put(E, <<k, v, o[3], vid>>), found |-> TRUE, rv |-> o[2], rvid |-> o[4], drops |-> NZ({kid})]
    ELSE [E |-> E \cup {<<k, v, kid, vid>>}, found |-> FALSE, rv |-> 0, rvid |-> 0, drops |-> {}]

\* remove(k) hands back the value and drops the stored key; remove_entry(k) hands back both
MRemove(E, k, entry) ==
    IF Has(E, k)
    THEN LET o == At(E, k) IN
         [E |-> Without(E, k), found |-> TRUE, el |-> o, drops |-> IF entry THEN {} ELSE NZ({o[3]})]
    ELSE [E |-> E, found |-> FALSE, el |-> <<0, 0, 0, 0>>, drops |-> {}]

\* write through a &mut V: value changes, value object stays
SetVal(E, k, w) == LET o == At(E, k) IN Put(E, <<k, w, o[3], o[4]>>)

\* retain / drain_filter: calls is the predicate call log  <<k, v-after-f, verdict, kid, vid>>
CallKeys(calls) == {calls[i][1] : i \in DOMAIN calls}
CalledOnce(E, calls) ==
    /\ Len(calls) = Cardinality(CallKeys(calls))
    /\ CallKeys(calls) \subseteq Keys(E)
\* elements as mutated by the calls made so far
Mutated(E, calls) ==
    {IF \E i \in DOMAIN calls : calls[i][1] = e[1]
     THEN LET c == calls[CHOOSE i \in DOMAIN calls : calls[i][1] = e[1]] IN <<e[1], c[2], e[3], e[4]>>
     ELSE e : e \in E}
Verdict(calls, k) == calls[CHOOSE i \in DOMAIN calls : calls[i][1] = k][3]
Called(calls, k) == \E i \in DOMAIN calls : calls[i][1] = k

\* set algebra on key sets
SymDiffS(A, B) == (A \ B) \cup (B \ A)

\* iterator contracts over a yielded sequence of elements
NoDup(seq) == Cardinality(ToSet(seq)) = Len(seq)
IsEnumerationOf(seq, E) == NoDup(seq) /\ ToSet(seq) = E
IsPartialEnumerationOf(seq, E) == NoDup(seq) /\ ToSet(seq) \subseteq E
=============================================================================

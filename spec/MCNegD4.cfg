CONSTANTS
  R = 8
  GW = 16
  MaxUsize = 255
  ElemSize = 1
  FixD1 = TRUE
  FixD4 = FALSE
  FixD6 = TRUE
  FixD8 = TRUE
  Debug = FALSE
  MaxB = 32
  ArgMode = "all"
  InitCaps = {0, 3, 14}
SPECIFICATION MCSpec
CONSTRAINT Bounded
INVARIANTS TypeOK Shape NoErr CursorAgrees CapGeLen Headroom FreshProbe TwoTables KeyAdding RemoveFrees ReserveContract ShrinkContract CloneContract
CHECK_DEADLOCK FALSE

------------------------------ MODULE MCGriddle ------------------------------
(* Model-checking harness for Griddle: small constants, every action, refinement
   obligations to RefMap (contents and results) and to GriddleCount (counters). *)
EXTENDS Griddle

CONSTANTS MaxB, ResArgs, ShrArgs, InitCaps

AllK == KeysOf(All)
TombSet == IF HB!TombPossible(Main) THEN {FALSE, TRUE} ELSE {FALSE}
RuSet == 0..(R + 1)
MvSets(P) == CarrySets(P)
Subsets == SUBSET Key

AbsOf(P) == P.M \cup P.O
Good(P) == P.err = "none"

MCInit == \E c \in InitCaps : InitWith(c)

InsertNew(k, v, mv, ru) == InsertNew_En(k, v, mv, ru) /\ Apply(InsertNew_Post(k, v, mv, ru))
OverwriteOld(k, v, mv, ru) == OverwriteOld_En(k, v, mv, ru) /\ Apply(OverwriteOld_Post(k, v, mv, ru))
OverwriteMain(k, v) == Ok /\ k \in KeysOf(M) /\ Apply(OverwriteMain_Post(k, v))
RemoveK(k, tomb) == RemoveK_En(k, tomb) /\ k \in AllK /\ Apply(RemoveK_Post(k, tomb))
EraseSet(S, nt) == EraseSet_En(S, nt) /\ S # {} /\ S \subseteq AllK /\ Apply(EraseSet_Post(S, nt))
RemoveSet(S, nt) == EraseSet_En(S, nt) /\ S # {} /\ S \subseteq AllK /\ Apply(RemoveSet_Post(S, nt))
Clear == Ok /\ Apply(Clear_Post)
Drain(f) == Ok /\ Apply(Drain_Post(f))
Reserve(n, ru) == Reserve_En(n, ru) /\ Apply(Reserve_Post(n, ru))
ShrinkTo(m) == Ok /\ Apply(ShrinkTo_Post(m))
\* clone(): exploration continues from the clone; dst.clone_from(self): from the destination
CloneSelf(ru) == Clone_En(ru) /\ Apply(Clone_Post(ru))
CloneFromInto(D, ru) == CloneFrom_En(D, ru) /\ Apply(CloneFrom_Post(D, ru))
\* representative destination main tables: unallocated, empty, empty with tombstones (the D6
\* shape), partly filled, full; every bucket count up to the bound
DestTables ==
    {HB!NewTbl} \cup
    UNION {{HB!Tbl(b, 0, Cap(b)), HB!Tbl(b, Cap(b), 0), HB!Tbl(b, 0, Cap(b) - 1), HB!Tbl(b, 1, Cap(b) - 2)}
           : b \in {x \in {4, 8, 16, 32} : x <= MaxB}}
RuClone == {0, 1}

\* the carry sets of the state in which the carry runs
MvFor == IF mG = 0 /\ ~oP /\ M # {} /\ GrowB(mI, 1) # HB!Overflow THEN CarrySets(Grown(St, 1))
         ELSE IF oP THEN CarrySets(St) ELSE {{}}

Next ==
    \/ \E k \in Key \ AllK, v \in Val, mv \in MvFor, ru \in RuSet : InsertNew(k, v, mv, ru)
    \/ \E k \in KeysOf(O), v \in Val, mv \in CarrySets(St), ru \in RuSet : OverwriteOld(k, v, mv, ru)
    \/ \E k \in KeysOf(M), v \in Val : OverwriteMain(k, v)
    \/ \E k \in AllK, t \in TombSet : RemoveK(k, t)
    \/ \E S \in Subsets, nt \in 0..1 : EraseSet(S, nt)
    \/ \E S \in Subsets, nt \in 0..1 : RemoveSet(S, nt)
    \/ Clear
    \/ \E f \in BOOLEAN : Drain(f)
    \/ \E n \in ResArgs, ru \in 0..1 : Reserve(n, ru)
    \/ \E m \in ShrArgs : ShrinkTo(m)
    \/ \E ru \in RuClone : CloneSelf(ru)
    \/ \E D \in DestTables, ru \in RuClone : CloneFromInto(D, ru)

\* C07: the same exploration with calls that may be interrupted by a panicking Hash
FaultNext ==
    \/ \E k \in Key \ AllK, v \in Val :
          \E dv \in (IF mG = 0 THEN (IF ~oP /\ M # {} /\ GrowB(mI, 1) # HB!Overflow THEN CarryFaultSets(Grown(St, 1)) ELSE {})
                      ELSE (IF oP THEN CarryFaultSets(St) ELSE {})) :
             \E ru \in 0..1 : F_InsertNew_En(k, v, dv[1], dv[2], ru) /\ Apply(F_InsertNew_Post(k, v, dv[1], dv[2], ru))
    \/ \E k \in KeysOf(O), v \in Val : \E dv \in CarryFaultSets(St) :
          \E ru \in 0..1 : F_OverwriteOld_En(k, v, dv[1], dv[2], ru) /\ Apply(F_OverwriteOld_Post(k, v, dv[1], dv[2], ru))
    \/ \E n \in ResArgs : \E done \in SUBSET cur : \E victim \in cur \ done :
          \E ru \in 0..1 : F_Reserve_En(n, done, victim, ru) /\ Apply(F_Reserve_Post(done, victim, ru))
MCSpec == MCInit /\ [][Next]_vars
MCFaultSpec == MCInit /\ [][Next \/ FaultNext]_vars

\* C07 loss bound: an interrupted key-adding call loses exactly the element being relocated
\* (and nothing else); everything it did complete is as the reference says
FaultLossBound ==
    Ok =>
    /\ \A k \in Key \ AllK, v \in Val :
         \A dv \in (IF mG = 0 THEN (IF ~oP /\ M # {} /\ GrowB(mI, 1) # HB!Overflow THEN CarryFaultSets(Grown(St, 1)) ELSE {})
                     ELSE (IF oP THEN CarryFaultSets(St) ELSE {})) :
            \A ru \in 0..1 : F_InsertNew_En(k, v, dv[1], dv[2], ru) =>
                LET P == F_InsertNew_Post(k, v, dv[1], dv[2], ru) IN
                Good(P) => AbsOf(P) = Drop(All, {dv[2]}) \cup {<<k, v>>}
    /\ \A k \in KeysOf(O), v \in Val : \A dv \in CarryFaultSets(St) :
            \A ru \in 0..1 : F_OverwriteOld_En(k, v, dv[1], dv[2], ru) =>
                LET P == F_OverwriteOld_Post(k, v, dv[1], dv[2], ru) IN
                Good(P) => AbsOf(P) = Drop(Drop(All, {k}) \cup {<<k, v>>}, {dv[2]})
    /\ \A n \in ResArgs : \A done \in SUBSET cur : \A victim \in cur \ done :
            \A ru \in 0..1 : F_Reserve_En(n, done, victim, ru) => AbsOf(F_Reserve_Post(done, victim, ru)) = Drop(All, {victim})
Bounded == mB <= MaxB /\ (oP => oB <= MaxB)

(***************************************************************************)
(* Refinement to the user-level map (RefMap): contents and results.        *)
(* kv = M \cup O; every action changes kv exactly as the reference         *)
(* operation does (per state, for all parameters).                         *)
(***************************************************************************)
\* lookups search main then old (find): must equal the lookup in kv
FindVal(k) == IF k \in KeysOf(M) THEN {ValAt(M, k)} ELSE IF k \in KeysOf(O) THEN {ValAt(O, k)} ELSE {}
RefLookup(k) == {e[2] : e \in {x \in All : x[1] = k}}
RefinesRefMap ==
    Ok =>
    /\ \A k \in Key : FindVal(k) = RefLookup(k)
    /\ \A k \in Key \ AllK, v \in Val, mv \in MvFor, ru \in RuSet :
           InsertNew_En(k, v, mv, ru) =>
               LET P == InsertNew_Post(k, v, mv, ru) IN
               Good(P) => (AbsOf(P) = All \cup {<<k, v>>} \/ (P = St /\ mG = 0))
    /\ \A k \in KeysOf(O), v \in Val, mv \in CarrySets(St), ru \in RuSet :
           OverwriteOld_En(k, v, mv, ru) =>
               LET P == OverwriteOld_Post(k, v, mv, ru) IN
               Good(P) => AbsOf(P) = Drop(All, {k}) \cup {<<k, v>>}
    /\ \A k \in KeysOf(M), v \in Val : AbsOf(OverwriteMain_Post(k, v)) = Drop(All, {k}) \cup {<<k, v>>}
    /\ \A k \in Key, t \in TombSet : RemoveK_En(k, t) => AbsOf(RemoveK_Post(k, t)) = Drop(All, {k})
    /\ \A S \in Subsets, nt \in 0..1 : EraseSet_En(S, nt) =>
           /\ AbsOf(EraseSet_Post(S, nt)) = Drop(All, S)
           /\ AbsOf(RemoveSet_Post(S, nt)) = Drop(All, S)
    /\ AbsOf(Clear_Post) = {} /\ \A f \in BOOLEAN : AbsOf(Drain_Post(f)) = {}
    /\ \A n \in ResArgs, ru \in 0..1 : Reserve_En(n, ru) => (Good(Reserve_Post(n, ru)) => AbsOf(Reserve_Post(n, ru)) = All)
    /\ \A m \in ShrArgs : AbsOf(ShrinkTo_Post(m)) = All
    \* C11: a clone / a clone_from destination holds exactly the source's elements, unsplit
    /\ \A ru \in RuClone : Clone_En(ru) =>
           LET P == Clone_Post(ru) IN Good(P) => (P.M = All /\ P.O = {} /\ ~P.oP /\ P.cur = {} /\ P.cN = 0)
    /\ \A D \in DestTables, ru \in RuClone : CloneFrom_En(D, ru) =>
           LET P == CloneFrom_Post(D, ru) IN Good(P) => (P.M = All /\ P.O = {} /\ ~P.oP /\ P.cur = {} /\ P.cN = 0)

(***************************************************************************)
(* Refinement to GriddleCount: the counters of every post-state are what   *)
(* the counter model computes from the counters of the pre-state.          *)
(***************************************************************************)
CntOf(P) == [mB |-> P.mB, mI |-> Cardinality(P.M), mG |-> P.mG, oP |-> P.oP, oB |-> P.oB,
             oI |-> Cardinality(P.O), cI |-> P.cN, err |-> P.err]
GC == INSTANCE GriddleCount WITH FixD1 <- TRUE, FixD4 <- TRUE, FixD6 <- TRUE, FixD8 <- TRUE, Debug <- FALSE,
          mB <- mB, mI <- Cardinality(M), mG <- mG, oP <- oP, oB <- oB, oI <- Cardinality(O), cI <- cN, err <- err
RefinesCount ==
    (Ok /\ Cursor) =>
    /\ \A k \in Key \ AllK, v \in Val, mv \in MvFor, ru \in RuSet :
           InsertNew_En(k, v, mv, ru) =>
               (GC!InsertNew_En(ru) /\ CntOf(InsertNew_Post(k, v, mv, ru)) = GC!InsertNew_Post(ru))
    /\ \A k \in KeysOf(O), v \in Val, mv \in CarrySets(St), ru \in RuSet :
           OverwriteOld_En(k, v, mv, ru) =>
               (GC!OverwriteOld_En(ru) /\ CntOf(OverwriteOld_Post(k, v, mv, ru)) = GC!OverwriteOld_Post(ru))
    /\ \A k \in AllK, t \in TombSet : RemoveK_En(k, t) =>
           CntOf(RemoveK_Post(k, t)) = (IF k \in KeysOf(M) THEN GC!Removed_Post(IF t THEN 0 ELSE 1, IF t THEN 1 ELSE 0, 0)
                                        ELSE GC!Removed_Post(0, 0, 1))
    /\ \A S \in Subsets, nt \in 0..1 : (EraseSet_En(S, nt) /\ S \subseteq AllK) =>
           LET nm == Cardinality(KeysOf(M) \cap S)
               no == Cardinality(KeysOf(O) \cap S)
           IN /\ CntOf(EraseSet_Post(S, nt)) = GC!Erased_Post(nm - nt, nt, no)
              /\ CntOf(RemoveSet_Post(S, nt)) = GC!Removed_Post(nm - nt, nt, no)
    /\ CntOf(Clear_Post) = GC!Clear_Post
    /\ \A f \in BOOLEAN : CntOf(Drain_Post(f)) = GC!Drain_Post(f)
    /\ \A n \in ResArgs, ru \in 0..1 : (Reserve_En(n, ru) /\ GC!Reserve_En(n, ru)) => CntOf(Reserve_Post(n, ru)) = GC!Reserve_Post(n, ru)
    /\ \A m \in ShrArgs : CntOf(ShrinkTo_Post(m)) = GC!ShrinkTo_Post(m)
    /\ \A ru \in RuClone : (Clone_En(ru) /\ GC!CloneSelf_En(ru)) => CntOf(Clone_Post(ru)) = GC!CloneSelf_Post(ru)
    /\ \A D \in DestTables, ru \in RuClone : (CloneFrom_En(D, ru) /\ GC!CloneFromInto_En(D, ru)) =>
           CntOf(CloneFrom_Post(D, ru)) = GC!CloneFromInto_Post(D, ru)
=============================================================================

----------------------------- MODULE TraceCount -----------------------------
(***************************************************************************)
(* Strict, implementation-level trace specification at the counter level:  *)
(* every recorded public call must be explained by the corresponding       *)
(* GriddleCount action(s) -- same bucket counts, item counts, growth_left, *)
(* old-table presence and cursor count as the hook observed on the real    *)
(* tables -- for some value of the action's explicit nondeterminism        *)
(* parameters (tombstone or not, how many relocations reuse a tombstone).  *)
(*                                                                         *)
(* This is what transfers the exhaustive results on GriddleCount (MCCount) *)
(* to the code: growth/shrink/reserve sizing, which calls carry, which     *)
(* removal paths free the old table, R.  A mismatch is reported as         *)
(*     <<"STRICT-FAIL", line, op, observed, ...>>                          *)
(* (spec drift, not a property violation); the state is re-synchronised to *)
(* the observation so the rest of the trace is still checked.              *)
(***************************************************************************)
EXTENDS Integers, Sequences, FiniteSets, SequencesExt, TLC, Json, IOUtils

Rec == ndJsonDeserialize(IOEnv.TRACE)
Hdr == Rec[1]
RR == Hdr.R
GWW == Hdr.GW
MU == 16777215      \* stands for usize::MAX (see DESIGN: offsets from the limit are preserved)

VARIABLES l, snap
vars == <<l, snap>>

GC(r) == INSTANCE GriddleCount WITH
            R <- RR, GW <- GWW, MaxUsize <- MU, ElemSize <- 8,
            FixD1 <- TRUE, FixD4 <- TRUE, FixD6 <- TRUE, FixD8 <- TRUE, Debug <- (Hdr.profile = "debug"),
            mB <- r.mB, mI <- r.mI, mG <- r.mG, oP <- r.oP, oB <- r.oB, oI <- r.oI, cI <- r.cI, err <- r.err
HB == INSTANCE Hashbrown WITH GW <- GWW, MaxUsize <- MU, ElemSize <- 8

HasF(r, f) == f \in DOMAIN r
SlotIdx(st, s) == {i \in DOMAIN st : st[i].s = s}
Alive(st, s) == SlotIdx(st, s) # {}
SlotR(st, s) == st[CHOOSE i \in SlotIdx(st, s) : TRUE]
\* the counter state the hook observed
Cnt(r) == [mB |-> r.mB, mI |-> r.mI, mG |-> r.mC - r.mI, oP |-> r.sp = 1,
           oB |-> r.oB, oI |-> r.oI, cI |-> r.cI, err |-> "none"]
Pre(s) == Cnt(SlotR(snap, s))
Post(e, s) == Cnt(SlotR(e.st, s))
PreR(s) == SlotR(snap, s)
PostR(e, s) == SlotR(e.st, s)
IsFull(r) == r.full = 1
KeysOf(seq) == {seq[i][1] : i \in DOMAIN seq}

Strict(name, e, cond, detail) ==
    IF cond THEN TRUE ELSE PrintT(<<"STRICT-FAIL", name, l, e.op>>) /\ PrintT(<<"STRICT-DETAIL", detail>>)

Panicked(e) == e.res.t = "panic"

\* usize arguments given relative to a limit
ArgVal(a) ==
    CASE HasF(a, "max_minus") -> MU - a.max_minus
      [] HasF(a, "imax_minus") -> (MU \div 2) - a.imax_minus
      [] HasF(a, "imax_plus") -> (MU \div 2) + a.imax_plus
      [] HasF(a, "eighth_minus") -> (MU \div 8) - a.eighth_minus
      [] HasF(a, "eighth_plus") -> (MU \div 8) + a.eighth_plus
NArg(e, f) == IF e.big = 1 THEN ArgVal(e[f]) ELSE e[f]

RuS == 0..(RR + 1)
B01 == {0, 1}

\* where the key of a single-key call was before the call: "main" | "old" | "absent" | "?" (no contents)
Loc(e, s) ==
    IF ~IsFull(PreR(s)) THEN "?"
    ELSE IF e.k \in KeysOf(PreR(s).main) THEN "main"
    ELSE IF e.k \in KeysOf(PreR(s).old) THEN "old" ELSE "absent"

(***************************************************************************)
(* Sets of admissible post-states per call                                 *)
(***************************************************************************)
InsertNewPosts(P) == {GC(P)!InsertNew_Post(ru) : ru \in {x \in RuS : GC(P)!InsertNew_En(x)}}
OverwriteOldPosts(P) == {GC(P)!OverwriteOld_Post(ru) : ru \in {x \in RuS : GC(P)!OverwriteOld_En(x)}}
RemovedPosts(P, nm, no) ==
    {GC(P)!Removed_Post(nm - nt, nt, no) : nt \in {x \in 0..nm : GC(P)!Removed_En(nm - x, x, no)}}
ErasedPosts(P, nm, no) ==
    {GC(P)!Erased_Post(nm - nt, nt, no) : nt \in {x \in 0..nm : GC(P)!Erased_En(nm - x, x, no)}}
ReservePosts(P, n) == {GC(P)!Reserve_Post(n, ru) : ru \in {x \in 0..GC(P)!RuMaxAll : GC(P)!Reserve_En(n, x)}}
ClonePosts(P) == {GC(P)!CloneSelf_Post(ru) : ru \in {x \in 0..GC(P)!RuMaxAll : GC(P)!CloneSelf_En(x)}}

\* one removal of the key at location loc through RawTable::remove (frees an emptied old table)
RmAt(P, loc) ==
    CASE loc = "main" -> RemovedPosts(P, 1, 0)
      [] loc = "old" -> RemovedPosts(P, 0, 1)
      [] loc = "absent" -> {P}
      [] OTHER -> RemovedPosts(P, 1, 0) \cup (IF P.oP THEN RemovedPosts(P, 0, 1) ELSE {}) \cup {P}
\* ... through erase / replace_bucket_with(None) (never frees)
ErAt(P, loc) ==
    CASE loc = "main" -> ErasedPosts(P, 1, 0)
      [] loc = "old" -> ErasedPosts(P, 0, 1)
      [] OTHER -> {P}

(***************************************************************************)
(* Entry / raw-entry chains: the structural steps a chain performs, in     *)
(* order, derived from the methods and the location of the key.            *)
(*   S = set of [st: counter state, loc: where the key is now]             *)
(***************************************************************************)
ChainStep(S, m, o) ==
    IF HasF(o, "na") THEN S
    ELSE
    LET name == m.m
        some == HasF(m, "some")
        Ins(x) == IF x.loc = "absent" THEN {[st |-> p, loc |-> "main"] : p \in InsertNewPosts(x.st)} ELSE {x}
        Rm(x) == {[st |-> p, loc |-> "absent"] : p \in RmAt(x.st, x.loc)}
        Er(x) == {[st |-> p, loc |-> "absent"] : p \in ErAt(x.st, x.loc)}
    IN
    CASE name \in {"or_insert", "or_insert_with", "or_insert_with_key", "or_default", "insert",
                   "v_insert", "v_insert_hashed", "v_insert_with_hasher"} -> UNION {Ins(x) : x \in S}
      [] name \in {"o_remove", "o_remove_entry"} -> UNION {Rm(x) : x \in S}
      [] name \in {"and_replace_entry_with", "o_replace_entry_with"} /\ ~some ->
             UNION {IF x.loc = "absent" THEN {x} ELSE Er(x) : x \in S}
      [] OTHER -> S
RECURSIVE ChainFold(_, _, _)
ChainFold(S, e, i) == IF i > Len(e.chain) THEN S ELSE ChainFold(ChainStep(S, e.chain[i], e.obs[i]), e, i + 1)

\* extend / from_iter: reserve(hint rule) then one insert per item; only folded when no
\* tombstone can interfere (deterministic)
\* acc = [st: counter state, keys: keys known to be present]
ExtendStep(acc, item) ==
    IF acc.st.err # "none" THEN acc
    ELSE IF item[1] \in acc.keys
    THEN \* overwrite: carries only if the key is still in the old table -- not tracked; give up
         [acc EXCEPT !.st.err = "untracked"]
    ELSE [st |-> GC(acc.st)!InsertNew_Post(0), keys |-> acc.keys \cup {item[1]}]
ExtendFold(P, K, items, i) == FoldLeft(ExtendStep, [st |-> P, keys |-> K], items).st

(***************************************************************************)
(* Per-operation strict conformance                                        *)
(***************************************************************************)
SOp(e) ==
    LET s == e.s IN
    CASE e.op = "New" ->
             IF Panicked(e) THEN TRUE
             ELSE LET b == HB!WithCapB(NArg(e, "cap")) IN
                  Strict("with_capacity", e, Post(e, s) = [mB |-> b, mI |-> 0, mG |-> HB!Cap(b), oP |-> FALSE,
                                                           oB |-> 0, oI |-> 0, cI |-> 0, err |-> "none"], <<Post(e, s), b>>)
      [] e.op \in {"Insert", "SInsert", "SReplace", "SGetOrInsert", "SGetOrInsertOwned", "SGetOrInsertWith"} ->
             IF Panicked(e) THEN TRUE
             ELSE LET P == Pre(s)
                      loc == Loc(e, s)
                      \* HashMap::insert carries when it overwrites in the old table; the set
                      \* operations that find the element never carry
                      carries == e.op \in {"Insert", "SInsert"}
                      cands == CASE loc = "absent" -> InsertNewPosts(P)
                                 [] loc = "main" -> {P}
                                 [] loc = "old" -> IF carries THEN OverwriteOldPosts(P) ELSE {P}
                                 [] OTHER -> InsertNewPosts(P) \cup {P} \cup (IF P.oP /\ P.oI > 0 THEN OverwriteOldPosts(P) ELSE {})
                  IN Strict("insert", e, Post(e, s) \in cands, <<loc, P, Post(e, s), cands>>)
      [] e.op \in {"Get", "SContains", "SGet", "Iter", "Eq", "SAlg"} ->
             Strict("read_only", e, Alive(snap, s) => Post(e, s) = Pre(s), <<Pre(s), Post(e, s)>>)
      [] e.op \in {"Remove", "RemoveEntry", "SRemove", "STake"} ->
             LET P == Pre(s) IN
             Strict("remove", e, Post(e, s) \in RmAt(P, Loc(e, s)), <<Loc(e, s), P, Post(e, s)>>)
      [] e.op = "Clear" ->
             Strict("clear", e, Post(e, s) = GC(Pre(s))!Clear_Post, <<Pre(s), Post(e, s)>>)
      [] e.op = "Drain" ->
             Strict("drain", e, Post(e, s) = GC(Pre(s))!Drain_Post(e.end = "forget"), <<Pre(s), Post(e, s)>>)
      [] e.op \in {"IntoIter", "DropMap"} -> Strict("consumed", e, ~Alive(e.st, s), <<>>)
      [] e.op \in {"Reserve", "TryReserve"} ->
             LET P == Pre(s)
                 n == NArg(e, "n")
                 kind == GC(P)!ReserveKind(n, e.op = "TryReserve")
                 obs == IF Panicked(e) THEN "panic" ELSE IF e.res.t = "ok" THEN "ok" ELSE "err"
             IN /\ Strict("reserve_outcome", e, obs = kind, <<n, P, obs, kind>>)
                /\ Strict("reserve", e, Post(e, s) \in ReservePosts(P, n), <<n, P, Post(e, s), ReservePosts(P, n)>>)
      [] e.op \in {"ShrinkTo", "ShrinkToFit"} ->
             LET P == Pre(s)
                 m == IF e.op = "ShrinkToFit" THEN 0 ELSE NArg(e, "n")
             IN Strict("shrink_to", e, Post(e, s) = GC(P)!ShrinkTo_Post(m), <<m, P, Post(e, s), GC(P)!ShrinkTo_Post(m)>>)
      [] e.op = "Retain" ->
             LET P == Pre(s)
                 Q == Post(e, s)
                 no == P.oI - Q.oI
                 nm == P.mI - Q.mI
             IN Strict("retain", e, nm >= 0 /\ no >= 0 /\ Q \in ErasedPosts(P, nm, no), <<nm, no, P, Q>>)
      [] e.op = "DrainFilter" ->
             LET P == Pre(s)
                 Q == Post(e, s)
                 no == P.oI - Q.oI
                 nm == P.mI - Q.mI
             IN Strict("drain_filter", e, nm >= 0 /\ no >= 0 /\ Q \in RemovedPosts(P, nm, no), <<nm, no, P, Q>>)
      [] e.op \in {"Entry", "RawEntry"} ->
             IF Panicked(e) \/ Loc(e, s) = "?" THEN TRUE
             ELSE LET F == ChainFold({[st |-> Pre(s), loc |-> Loc(e, s)]}, e, 1) IN
                  Strict("entry_chain", e, Post(e, s) \in {x.st : x \in F}, <<Loc(e, s), Pre(s), Post(e, s), {x.st : x \in F}>>)
      [] e.op = "Clone" ->
             Strict("clone", e, Post(e, e.d) \in ClonePosts(Pre(s)) /\ Post(e, s) = Pre(s), <<Pre(s), Post(e, e.d)>>)
      [] e.op = "CloneFrom" ->
             LET S == Pre(s)
                 D == Pre(e.d)
                 Dt == HB!Tbl(D.mB, D.mI, D.mG)
                 cands == {LET T == GC(S)!CloneFromMain(Dt, ru) IN
                           [mB |-> T.b, mI |-> T.i, mG |-> T.g, oP |-> FALSE, oB |-> 0, oI |-> 0, cI |-> 0, err |-> "none"]
                           : ru \in 0..(IF S.oP THEN S.cI ELSE 0)}
             IN Strict("clone_from", e, Post(e, e.d) \in cands /\ Post(e, s) = S, <<S, D, Post(e, e.d), cands>>)
      [] e.op \in {"Extend", "FromIter"} ->
             IF Panicked(e) \/ e.big = 1 THEN TRUE
             ELSE LET hint == e.hint
                      fresh == e.op = "FromIter"
                      P0 == IF fresh
                            THEN LET b == HB!WithCapB(hint) IN
                                 [mB |-> b, mI |-> 0, mG |-> HB!Cap(b), oP |-> FALSE, oB |-> 0, oI |-> 0, cI |-> 0, err |-> "none"]
                            ELSE Pre(s)
                      empty == P0.mI + (IF P0.oP THEN P0.oI ELSE 0) = 0
                      rsv == IF empty THEN hint ELSE (hint + 1) \div 2
                      P1s == IF fresh THEN {P0} ELSE ReservePosts(P0, rsv)
                      known == IF fresh THEN {} ELSE (IF IsFull(PreR(s)) THEN KeysOf(PreR(s).main) \cup KeysOf(PreR(s).old) ELSE {})
                      outs == {ExtendFold(p, known, e.items, 1) : p \in P1s}
                  IN  IF (~fresh /\ ~IsFull(PreR(s))) \/ (\E p \in outs : p.err = "untracked") \/ (\E p \in P1s : HB!Lost(HB!Tbl(p.mB, p.mI, p.mG)) > 0)
                      THEN TRUE    \* composite not folded (duplicate keys / tombstones): judged by TraceRef only
                      ELSE Strict("extend", e, Post(e, s) \in outs, <<P0, rsv, Post(e, s), outs>>)
      [] OTHER -> TRUE

Init == l = 2 /\ snap = <<>>

Step ==
    /\ l <= Len(Rec)
    /\ LET e == Rec[l] IN
       CASE e.op = "Reset" -> snap' = <<>>
         [] e.op \in {"Skip", "EndRun"} -> UNCHANGED snap
         [] e.op = "Snap" -> snap' = e.st
         [] OTHER ->
                /\ (IF HasF(e, "fault") THEN TRUE ELSE SOp(e)) = TRUE
                /\ Strict("R_constant", e, \A i \in DOMAIN e.st : TRUE, <<>>) = TRUE
                /\ snap' = e.st
    /\ l' = l + 1

Spec == Init /\ [][Step]_vars

Accepted ==
    LET d == TLCGet("stats").diameter IN
    IF d = Len(Rec) THEN TRUE
    ELSE /\ PrintT(<<"TRACE-REJECTED at line", d + 1, IF d + 1 <= Len(Rec) THEN Rec[d + 1].op ELSE "?">>)
         /\ FALSE
=============================================================================

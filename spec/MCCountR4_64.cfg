CONSTANTS
  R = 4
  GW = 8
  MaxUsize = 16777215
  ElemSize = 8
  FixD1 = TRUE
  FixD4 = TRUE
  FixD6 = TRUE
  FixD8 = TRUE
  Debug = FALSE
  MaxB = 64
  ArgMode = "boundary"
  InitCaps = {0, 3, 4, 28}
SPECIFICATION MCSpec
CONSTRAINT Bounded
INVARIANTS TypeOK Shape NoErr CursorAgrees CapGeLen Headroom FreshProbe TwoTables KeyAdding RemoveFrees ReserveContract ShrinkContract CloneContract
CHECK_DEADLOCK FALSE

------------------------------ MODULE MCCursor ------------------------------
(***************************************************************************)
(* C05 at the level of buckets: the cached old-table iterator              *)
(* (OldTable::items, a hashbrown RawIter) and the calls that keep it in    *)
(* step with the old table.                                                *)
(*                                                                         *)
(* Griddle.tla abstracts the cursor to the *set* of keys it will still     *)
(* yield and models reflect_remove as set difference, so it cannot tell a  *)
(* correct use of hashbrown's iterator-maintenance API from a subtly wrong *)
(* one.  This module transcribes the mechanism itself (hashbrown 0.14.5,   *)
(* src/raw/mod.rs: RawIterRange::next_impl, RawIter::next,                 *)
(* RawIter::reflect_toggle_full) and the way src/raw/mod.rs of griddle     *)
(* uses it on the old table:                                               *)
(*   carry              b = items.next(); old.remove(b)        (no reflect)*)
(*   remove / erase     items.reflect_remove(b); old.erase(b)              *)
(*   replace_bucket_with(b, f)   [fix D3/D5]                               *)
(*        before = items.clone(); items.reflect_remove(b);                 *)
(*        f -> Some: element back in the same bucket, items = before       *)
(*        f -> None or unwinds: bucket stays empty, items stays reflected  *)
(* Nothing is ever inserted into the old table.                            *)
(*                                                                         *)
(* The iterator: the group it has loaded (g), the offsets of that group it *)
(* has still to yield (mask, a snapshot of the control bytes taken when    *)
(* the group was loaded), and a counter (items) that next() trusts instead *)
(* of checking the range -- a counter that is too high makes next() read   *)
(* control bytes past the end of the table (err "overread").               *)
(*                                                                         *)
(* Mode selects the replace_bucket_with under study:                       *)
(*   "fixed"          as in the tree (D3/D5 repaired)                      *)
(*   "original"       erase first, reflect_remove afterwards and only when *)
(*                    f returned None -- never when f unwinds (D3, D5)     *)
(*   "reflect_insert" reflect_remove, then reflect_insert when f returned  *)
(*                    Some (the rejected repair; seeds S06/S08/S12)        *)
(*   "late_snapshot"  the snapshot is taken after reflect_remove (seed S01)*)
(* TLC shows CursorExact/NoErr for "fixed" and a counterexample for each   *)
(* of the others (cfg files MCCursor*.cfg).                                *)
(***************************************************************************)
EXTENDS Integers, FiniteSets, TLC

CONSTANTS NB,      \* buckets of the old table (a multiple of GWc)
          GWc,     \* group width
          Mode,
          DebugAsserts,  \* TRUE: hashbrown's debug assertions are live (debug build)
          Zst            \* TRUE: zero-sized elements (fix D2): reflect_remove cannot locate the bucket of a
                         \* ZST (it panics), so griddle skips it and re-creates the iterator after the removal

VARIABLES full,    \* set of full buckets of the old table
          g,       \* iterator: index of the loaded group
          mask,    \* iterator: offsets in the loaded group still to be yielded
          items,   \* iterator: number of elements it believes are left
          err
vars == <<full, g, mask, items, err>>

Buckets == 0..(NB - 1)
GroupOf(b) == b \div GWc
OffsetsFull(F, grp) == {i \in 0..(GWc - 1) : grp * GWc + i \in F}
MinOf(S) == CHOOSE x \in S : \A y \in S : x <= y

It == [g |-> g, mask |-> mask, items |-> items]

\* table.iter(): the first group is loaded at once
IterOf(F) == [g |-> 0, mask |-> OffsetsFull(F, 0), items |-> Cardinality(F)]

Init ==
    /\ full \in SUBSET Buckets
    /\ g = 0 /\ mask = OffsetsFull(full, 0) /\ items = Cardinality(full)
    /\ err = "none"

(***************************************************************************)
(* hashbrown: RawIter::next over RawIterRange::next_impl::<false>          *)
(* returns [it, out, err]                                                  *)
(***************************************************************************)
RECURSIVE NextImpl(_, _)
NextImpl(it, F) ==
    IF it.mask # {}
    THEN LET i == MinOf(it.mask) IN
         [it |-> [it EXCEPT !.mask = it.mask \ {i}], out |-> it.g * GWc + i, err |-> "none"]
    ELSE IF (it.g + 1) * GWc >= NB
    THEN [it |-> it, out |-> -1, err |-> "overread"]       \* loads a group past the end of the table
    ELSE NextImpl([it EXCEPT !.g = it.g + 1, !.mask = OffsetsFull(F, it.g + 1)], F)
IterNext(it, F) ==
    IF it.items = 0 THEN [it |-> it, out |-> -1, err |-> "none"]
    ELSE LET r == NextImpl(it, F) IN
         [r EXCEPT !.it = [r.it EXCEPT !.items = it.items - 1]]

(***************************************************************************)
(* hashbrown: RawIter::reflect_toggle_full(b, is_insert); F = control      *)
(* bytes at the time of the call.  returns [it, err]                       *)
(***************************************************************************)
Reflect(it, b, isInsert, F) ==
    LET d == IF isInsert THEN 1 ELSE -1 IN
    IF b < it.g * GWc THEN [it |-> it, err |-> "none"]                  \* the iterator has passed that group
    ELSE IF (it.g + 1) * GWc < NB /\ b >= (it.g + 1) * GWc
    THEN \* not reached yet: only the count changes (debug: the control byte must say FULL)
         [it |-> [it EXCEPT !.items = it.items + d],
          err |-> IF DebugAsserts /\ b \notin F THEN "reflect_debug_assert_is_full" ELSE "none"]
    ELSE \* the bucket is in the loaded group
         IF it.mask = {} THEN [it |-> it, err |-> "none"]
         ELSE LET index == MinOf(it.mask)
                  bit == b - it.g * GWc
              IN IF bit < index THEN [it |-> it, err |-> "none"]        \* "before" the next one: already passed
                 ELSE LET wasFull == bit \in it.mask IN
                      [it |-> [it EXCEPT !.mask = IF wasFull THEN it.mask \ {bit} ELSE it.mask \cup {bit},
                                         !.items = it.items + d],
                       err |-> IF DebugAsserts /\ wasFull = isInsert THEN "reflect_debug_assert_flip" ELSE "none"]

SetIt(it) == g' = it.g /\ mask' = it.mask /\ items' = it.items
Ok == err = "none"

(***************************************************************************)
(* griddle's calls on the old table                                        *)
(***************************************************************************)
\* carry(): one iteration of the loop
Carry ==
    /\ Ok /\ items > 0
    /\ LET r == IterNext(It, full) IN
       IF r.err # "none" THEN err' = r.err /\ UNCHANGED <<full, g, mask, items>>
       ELSE IF r.out \notin full
       THEN err' = "yielded_vacated_bucket" /\ SetIt(r.it) /\ UNCHANGED full      \* ptr::read of an empty slot
       ELSE /\ full' = full \ {r.out} /\ SetIt(r.it) /\ err' = "none"

\* RawTable::remove / erase of an element found in the old table
Remove(b) ==
    /\ Ok /\ b \in full
    /\ IF Zst
       THEN full' = full \ {b} /\ SetIt(IterOf(full \ {b})) /\ err' = "none"       \* OldTable::resync
       ELSE LET r == Reflect(It, b, FALSE, full) IN
            /\ SetIt(r.it) /\ err' = r.err
            /\ full' = full \ {b}

\* replace_bucket_with on an element of the old table; outcome \in {"some", "none", "unwind"}
Replace(b, outcome) ==
    /\ Ok /\ b \in full
    /\ CASE Mode = "fixed" /\ Zst ->
                \* ResyncOnDrop: whatever the closure does (also when it unwinds), the iterator is re-created
                \* from the table as it is afterwards; on Some the saved iterator is restored first
                IF outcome = "some" THEN SetIt(IterOf(full)) /\ UNCHANGED <<full, err>>
                ELSE full' = full \ {b} /\ SetIt(IterOf(full \ {b})) /\ err' = "none"
         [] Mode = "fixed" ->
                LET before == It
                    r == Reflect(It, b, FALSE, full)
                IN IF outcome = "some"
                   THEN SetIt(before) /\ err' = r.err /\ UNCHANGED full
                   ELSE SetIt(r.it) /\ err' = r.err /\ full' = full \ {b}
         [] Mode = "original" ->
                \* hashbrown erases, calls f, re-inserts on Some; griddle reflects afterwards, on None only
                IF outcome = "some" THEN UNCHANGED vars
                ELSE IF outcome = "none"
                THEN LET r == Reflect(It, b, FALSE, full \ {b}) IN
                     SetIt(r.it) /\ err' = r.err /\ full' = full \ {b}
                ELSE full' = full \ {b} /\ UNCHANGED <<g, mask, items, err>>
         [] Mode = "reflect_insert" ->
                LET r == Reflect(It, b, FALSE, full) IN
                IF outcome = "some"
                THEN LET r2 == Reflect(r.it, b, TRUE, full) IN
                     SetIt(r2.it) /\ err' = (IF r.err # "none" THEN r.err ELSE r2.err) /\ UNCHANGED full
                ELSE SetIt(r.it) /\ err' = r.err /\ full' = full \ {b}
         [] Mode = "late_snapshot" ->
                LET r == Reflect(It, b, FALSE, full)
                    before == r.it
                IN IF outcome = "some"
                   THEN SetIt(before) /\ err' = r.err /\ UNCHANGED full
                   ELSE SetIt(r.it) /\ err' = r.err /\ full' = full \ {b}

Next ==
    \/ Carry
    \/ \E b \in full : Remove(b)
    \/ \E b \in full, o \in {"some", "none", "unwind"} : Replace(b, o)

Spec == Init /\ [][Next]_vars

(***************************************************************************)
(* Properties                                                              *)
(***************************************************************************)
\* what the iterator will still yield, were next() called until it returns None
WillYield == {g * GWc + i : i \in mask} \cup {b \in full : b >= (g + 1) * GWc}
\* C05: "the cached position ... always agrees exactly with the set of elements still there, however
\* they were removed from it"
CursorExact == Ok => (WillYield = full /\ items = Cardinality(full))
NoErr == err = "none"
TypeOK == full \subseteq Buckets /\ g \in 0..(NB \div GWc) /\ mask \subseteq 0..(GWc - 1) /\ items \in -NB..NB
=============================================================================

------------------------------- MODULE MCPar -------------------------------
(***************************************************************************)
(* C15: griddle's rayon bridge (src/external_trait_impls/rayon/raw.rs)     *)
(* under every work-splitting schedule.                                    *)
(*                                                                         *)
(* RawParIter::drive_unindexed drives hashbrown's parallel iterator over   *)
(* the main table to completion (left half), *then* the one over the old   *)
(* table (right half) -- two sequential phases, each internally parallel.  *)
(* hashbrown's producer is a range of control-byte groups; split() cuts    *)
(*     {current group} ++ [next, end)                                      *)
(* into {current} ++ [next, next+mid) and [next+mid, end) with             *)
(*     mid = ((end - next) / 2) rounded down to whole groups               *)
(* and refuses when the current group is the last one.  rayon's            *)
(* bridge_unindexed decides per task whether to split it (join the two     *)
(* halves, which idle workers may steal) or to fold it sequentially; that  *)
(* decision depends on the pool size and on steals, so here it is          *)
(* nondeterministic: every task with at least two groups may be split or   *)
(* taken by any idle worker at any time.  That is a superset of rayon's    *)
(* schedules for any pool size <= Workers.                                 *)
(*                                                                         *)
(* Tables are abstract: NGm / NGo groups of GWm buckets; which buckets are *)
(* full is chosen arbitrarily in Init (every occupancy pattern is          *)
(* explored).  OldPresent = FALSE models an unsplit map.                   *)
(***************************************************************************)
EXTENDS Integers, FiniteSets, TLC

CONSTANTS Workers,    \* set of worker ids
          NGm, NGo,   \* groups in the main / old table
          GWm,        \* buckets per group
          SplitBug    \* FALSE: hashbrown's split; TRUE: a tail that starts one group late (self-test)

VARIABLES full,       \* [{"main","old"} -> SUBSET bucket indices]: occupancy (constant after Init)
          oldPresent, \* is there a left-over table (resize in progress)
          phase,      \* "main" | "old" | "done"
          pending,    \* set of tasks <<table, lo, hi>>: group range [lo, hi) not yet taken
          active,     \* [Workers -> task record or None]
          visits      \* [<<table, bucket>> -> number of times handed to a consumer]
vars == <<full, oldPresent, phase, pending, active, visits>>

None == [t |-> "none", lo |-> 0, hi |-> 0, pos |-> 0]
Buckets(t) == 0..((IF t = "main" THEN NGm ELSE NGo) * GWm - 1)
Elems == ({"main"} \X Buckets("main")) \cup ({"old"} \X Buckets("old"))

Init ==
    /\ full \in [{"main", "old"} -> SUBSET (0..(NGm * GWm - 1))]
    /\ full["old"] \subseteq Buckets("old")
    /\ oldPresent \in BOOLEAN
    /\ (~oldPresent => full["old"] = {})
    /\ phase = "main"
    /\ pending = {<<"main", 0, NGm>>}
    /\ active = [w \in Workers |-> None]
    /\ visits = [e \in Elems |-> 0]

\* hashbrown RawIterRange::split on the group range [lo, hi): lo is the group being processed
CanSplit(task) == task[3] - task[2] >= 2
SplitOf(task) ==
    LET lo == task[2]
        hi == task[3]
        next == lo + 1
        mid == (hi - next) \div 2
        cut == next + mid
    IN <<<<task[1], lo, cut>>, <<task[1], IF SplitBug THEN cut + 1 ELSE cut, hi>>>>

Split(task) ==
    /\ task \in pending /\ CanSplit(task)
    /\ LET p == SplitOf(task) IN pending' = (pending \ {task}) \cup {p[1], p[2]}
    /\ UNCHANGED <<full, oldPresent, phase, active, visits>>

\* an idle worker starts folding a pending task (its own half of a join, or a stolen one)
Take(w, task) ==
    /\ active[w] = None /\ task \in pending
    /\ pending' = pending \ {task}
    /\ active' = [active EXCEPT ![w] = [t |-> task[1], lo |-> task[2], hi |-> task[3], pos |-> task[2] * GWm]]
    /\ UNCHANGED <<full, oldPresent, phase, visits>>

\* fold_with: the next full bucket of the range goes to the consumer; the task ends after the last
Visit(w) ==
    LET a == active[w]
        rest == {b \in full[a.t] : b >= a.pos /\ b < a.hi * GWm}
    IN /\ a # None
       /\ IF rest = {}
          THEN /\ active' = [active EXCEPT ![w] = None]
               /\ UNCHANGED visits
          ELSE LET b == CHOOSE x \in rest : \A y \in rest : x <= y IN
               /\ visits' = [visits EXCEPT ![<<a.t, b>>] = @ + 1]
               /\ active' = [active EXCEPT ![w].pos = b + 1]
       /\ UNCHANGED <<full, oldPresent, phase, pending>>

Idle == \A w \in Workers : active[w] = None
\* left_half has been reduced: only now is the right half (the old table) driven
NextPhase ==
    /\ pending = {} /\ Idle
    /\ \/ /\ phase = "main" /\ oldPresent
          /\ phase' = "old" /\ pending' = {<<"old", 0, NGo>>}
       \/ /\ (phase = "old" \/ (phase = "main" /\ ~oldPresent))
          /\ phase' = "done" /\ pending' = {}
    /\ UNCHANGED <<full, oldPresent, active, visits>>

Next ==
    \/ \E task \in pending : Split(task)
    \/ \E w \in Workers, task \in pending : Take(w, task)
    \/ \E w \in Workers : Visit(w)
    \/ NextPhase

Spec == Init /\ [][Next]_vars /\ WF_vars(Next)

(***************************************************************************)
(* Properties                                                              *)
(***************************************************************************)
IsFullE(e) == e[2] \in full[e[1]]
\* never handed to two workers / twice; never an empty bucket
AtMostOnce == \A e \in Elems : visits[e] <= (IF IsFullE(e) THEN 1 ELSE 0)
\* the ranges in flight and the pending ones partition what is still to be visited
RangeOf(t, lo, hi) == {<<t, b>> : b \in (lo * GWm)..(hi * GWm - 1)}
Todo(a) == {<<a.t, b>> : b \in a.pos..(a.hi * GWm - 1)}
NoOverlap ==
    /\ \A p, q \in pending : p # q => RangeOf(p[1], p[2], p[3]) \cap RangeOf(q[1], q[2], q[3]) = {}
    /\ \A w, x \in Workers : (w # x /\ active[w] # None /\ active[x] # None) => Todo(active[w]) \cap Todo(active[x]) = {}
    /\ \A w \in Workers, p \in pending : active[w] # None => Todo(active[w]) \cap RangeOf(p[1], p[2], p[3]) = {}
\* nothing of the old table is visited before the main table is finished (observable in recorded runs)
MainBeforeOld == phase = "main" => \A b \in Buckets("old") : visits[<<"old", b>>] = 0
\* every full bucket not yet visited is still covered by some range
Covered ==
    phase # "done" =>
    \A e \in Elems : (IsFullE(e) /\ visits[e] = 0) =>
        \/ \E p \in pending : e \in RangeOf(p[1], p[2], p[3])
        \/ \E w \in Workers : active[w] # None /\ e \in Todo(active[w])
        \/ (e[1] = "old" /\ phase = "main")
\* when the traversal returns, every element has been visited exactly once
ExactlyOnceAtEnd == phase = "done" => \A e \in Elems : visits[e] = (IF IsFullE(e) THEN 1 ELSE 0)
Terminates == <>(phase = "done")

(***************************************************************************)
(* The parallel set operations and predicates are compositions of such     *)
(* traversals with lookups (src/external_trait_impls/rayon/set.rs); given  *)
(* exactly-once traversal, they equal the mathematical definitions:        *)
(***************************************************************************)
U == 1..4
ParUnion(A, B) == <<A, {x \in B : x \notin A}>>            \* a.par_iter() chain b.par_difference(a)
ParSymDiff(A, B) == <<{x \in A : x \notin B}, {x \in B : x \notin A}>>
ASSUME \A A, B \in SUBSET U :
    /\ ParUnion(A, B)[1] \cup ParUnion(A, B)[2] = A \cup B /\ ParUnion(A, B)[1] \cap ParUnion(A, B)[2] = {}
    /\ ParSymDiff(A, B)[1] \cup ParSymDiff(A, B)[2] = (A \ B) \cup (B \ A) /\ ParSymDiff(A, B)[1] \cap ParSymDiff(A, B)[2] = {}
    /\ {x \in A : x \in B} = A \cap B /\ {x \in A : x \notin B} = A \ B
    /\ (\A x \in A : x \in B) <=> (A \subseteq B)
    /\ (\A x \in A : x \notin B) <=> (A \cap B = {})
    /\ ((Cardinality(A) = Cardinality(B)) /\ (\A x \in A : x \in B)) <=> (A = B)     \* par_eq
=============================================================================

//! drive: runs operations on the real griddle crate and records one ndjson event per call.
//!
//!   drive random --elem plain|heap|zst --seed N --events M [--nkeys K] [--set] [--two] [--hm 0|1|2]
//!                [--limits] [--runs R] --out FILE
//!   drive run    --elem E --script FILE --out FILE        (re-executes the "op" lines of a script or trace)

mod elem;
mod gen;
mod ops;
mod sets;
mod world;

use elem::*;
use rand::rngs::SmallRng;
use rand::SeedableRng;
use serde_json::{json, Value};
use std::io::{BufRead, BufWriter, Write};
use world::*;

#[global_allocator]
static GLOBAL: CountingAlloc = CountingAlloc;

struct Args {
    m: std::collections::HashMap<String, String>,
    flags: std::collections::HashSet<String>,
}
impl Args {
    fn parse() -> (String, Args) {
        let v: Vec<String> = std::env::args().collect();
        let mode = v.get(1).cloned().unwrap_or_default();
        let mut m = std::collections::HashMap::new();
        let mut flags = std::collections::HashSet::new();
        let mut i = 2;
        while i < v.len() {
            let a = v[i].trim_start_matches("--").to_string();
            if i + 1 < v.len() && !v[i + 1].starts_with("--") {
                m.insert(a, v[i + 1].clone());
                i += 2;
            } else {
                flags.insert(a);
                i += 1;
            }
        }
        (mode, Args { m, flags })
    }
    fn get(&self, k: &str, d: &str) -> String {
        self.m.get(k).cloned().unwrap_or_else(|| d.to_string())
    }
    fn num(&self, k: &str, d: u64) -> u64 {
        self.m.get(k).map(|x| x.parse().unwrap()).unwrap_or(d)
    }
    fn flag(&self, k: &str) -> bool {
        self.flags.contains(k)
    }
}

fn header<K: KeyT>(a: &Args, extra: Value) -> Value {
    let r = griddle::HashMap::<u8, u8>::new().verif_state().r;
    json!({"op":"Header","R":r,"GW": if cfg!(miri) {8} else {16},
           "elem":K::NAME,"profile": if cfg!(debug_assertions) {"debug"} else {"release"},
           "seed": a.num("seed",0), "x": extra})
}

fn emit(out: &mut dyn Write, e: &Value) {
    serde_json::to_writer(&mut *out, e).unwrap();
    out.write_all(b"\n").unwrap();
    out.flush().unwrap();
}

fn run_random<K: KeyT, V: ValT>(a: &Args) {
    let mut out = BufWriter::new(std::fs::File::create(a.get("out", "/dev/stdout")).unwrap());
    let runs = a.num("runs", 1);
    let events = a.num("events", 200);
    let seed = a.num("seed", 1);
    emit(&mut out, &header::<K>(a, json!({"mode":"random"})));
    for run in 0..runs {
        let mut w: World<K, V> = World::new(2, a.num("content-limit", 64) as usize);
        let hm = if a.m.contains_key("hm") { a.num("hm", 0) as u8 } else { (run % 3) as u8 };
        let nkeys = if a.m.contains_key("nkeys") { a.num("nkeys", 40) as u32 } else { [12u32, 24, 40, 60][(run / 3 % 4) as usize] };
        let mut g = gen::Gen {
            cfg: gen::GenCfg { nkeys, set: a.flag("set"), two: a.flag("two"), hm, limits: a.flag("limits"), zst: K::NAME == "zst" },
            rng: SmallRng::seed_from_u64(seed.wrapping_mul(1000003).wrapping_add(run)),
        };
        rebase_live();
        emit(&mut out, &json!({"op":"Reset","run":run,"hm":hm,"nkeys":nkeys}));
        for _ in 0..events {
            let op = g.next_op(&w);
            let ev = w.exec(&op);
            emit(&mut out, &ev);
        }
        // end of run: drop everything, one event per slot, then the ledger must be empty
        for s in 1..w.slots.len() {
            if w.alive(s) {
                let ev = w.exec(&json!({"op":"DropMap","s":s}));
                emit(&mut out, &ev);
            }
        }
        let live = live_ids();
        emit(&mut out, &json!({"op":"EndRun","live_ids": live, "live_allocs": live_tables()}));
    }
}

fn run_script<K: KeyT, V: ValT>(a: &Args) {
    let mut out = BufWriter::new(std::fs::File::create(a.get("out", "/dev/stdout")).unwrap());
    let f = std::fs::File::open(a.get("script", "")).expect("script");
    let mut w: World<K, V> = World::new(4, a.num("content-limit", 64) as usize);
    emit(&mut out, &header::<K>(a, json!({"mode":"script"})));
    rebase_live();
    for line in std::io::BufReader::new(f).lines() {
        let line = line.unwrap();
        if line.trim().is_empty() {
            continue;
        }
        let op: Value = serde_json::from_str(&line).expect("json");
        match op["op"].as_str().unwrap_or("") {
            "Header" => continue,
            "Reset" => {
                w = World::new(4, a.num("content-limit", 64) as usize);
                rebase_live();
                emit(&mut out, &op);
            }
            "EndRun" => {
                let live = live_ids();
                emit(&mut out, &json!({"op":"EndRun","live_ids": live, "live_allocs": live_tables()}));
            }
            _ => {
                // strip observation fields so that a recorded trace can be used as a script
                let mut o = op.as_object().cloned().unwrap();
                for k in ["res", "st", "cost", "led", "obs", "calls", "yield", "cyield", "hints", "tail", "kid", "vid", "vids", "ids", "objs", "unused"] {
                    o.remove(k);
                }
                match w.resolve(&Value::Object(o)) {
                    Some(o) => {
                        let ev = w.exec(&o);
                        emit(&mut out, &ev);
                    }
                    None => emit(&mut out, &json!({"op":"Skip","why":"empty class","orig":op})),
                }
            }
        }
    }
}

fn main() {
    install_panic_hook();
    let (mode, a) = Args::parse();
    let elem = a.get("elem", "plain");
    macro_rules! dispatch {
        ($f:ident) => {
            match elem.as_str() {
                "plain" => $f::<PK, PV>(&a),
                "heap" => $f::<HK, HV>(&a),
                "zst" => $f::<ZK, ZV>(&a),
                _ => panic!("bad --elem"),
            }
        };
    }
    match mode.as_str() {
        "random" => dispatch!(run_random),
        "run" => dispatch!(run_script),
        _ => {
            eprintln!("usage: drive random|run ...");
            std::process::exit(2);
        }
    }
}

//! drive: runs operations on the real griddle crate and records one ndjson event per call.
//!
//!   drive random --elem plain|heap|zst --seed N --events M [--nkeys K] [--set] [--two] [--hm 0|1|2]
//!                [--limits] [--runs R] --out FILE
//!   drive run    --elem E --script FILE --out FILE        (re-executes the "op" lines of a script or trace)

mod elem;
mod ext;
mod gen;
mod ops;
mod sets;
mod world;

use elem::*;
use rand::rngs::SmallRng;
use rand::SeedableRng;
use serde_json::{json, Value};
use std::io::{BufRead, BufWriter, Write};
use world::*;

#[global_allocator]
static GLOBAL: CountingAlloc = CountingAlloc;

struct Args {
    m: std::collections::HashMap<String, String>,
    flags: std::collections::HashSet<String>,
}
impl Args {
    fn parse() -> (String, Args) {
        let v: Vec<String> = std::env::args().collect();
        let mode = v.get(1).cloned().unwrap_or_default();
        let mut m = std::collections::HashMap::new();
        let mut flags = std::collections::HashSet::new();
        let mut i = 2;
        while i < v.len() {
            let a = v[i].trim_start_matches("--").to_string();
            if i + 1 < v.len() && !v[i + 1].starts_with("--") {
                m.insert(a, v[i + 1].clone());
                i += 2;
            } else {
                flags.insert(a);
                i += 1;
            }
        }
        (mode, Args { m, flags })
    }
    fn get(&self, k: &str, d: &str) -> String {
        self.m.get(k).cloned().unwrap_or_else(|| d.to_string())
    }
    fn num(&self, k: &str, d: u64) -> u64 {
        self.m.get(k).map(|x| x.parse().unwrap()).unwrap_or(d)
    }
    fn flag(&self, k: &str) -> bool {
        self.flags.contains(k)
    }
}

fn header<K: KeyT>(a: &Args, extra: Value) -> Value {
    let r = griddle::HashMap::<u8, u8>::new().verif_state().r;
    json!({"op":"Header","R":r,"GW": if cfg!(miri) {8} else {16},
           "elem":K::NAME,"profile": if cfg!(debug_assertions) {"debug"} else {"release"},
           "seed": a.num("seed",0), "x": extra})
}

/// TLC integers are 32-bit: clamp anything larger (e.g. a wrapped capacity) so that a corrupted
/// state is still a readable trace line that the monitors can judge.
fn clamp(v: &mut Value) {
    match v {
        Value::Number(n) => {
            if let Some(u) = n.as_u64() {
                if u > 500_000_000 {
                    *v = json!(500_000_000u64);
                }
            } else if let Some(i) = n.as_i64() {
                if i < -500_000_000 {
                    *v = json!(-500_000_000i64);
                }
            }
        }
        Value::Array(a) => a.iter_mut().for_each(clamp),
        Value::Object(o) => o.values_mut().for_each(clamp),
        _ => {}
    }
}

fn gverif_zst_live() -> (i64, i64) {
    elem::zst_live()
}

fn emit(out: &mut dyn Write, e: &Value) {
    let mut e = e.clone();
    clamp(&mut e);
    if e["op"] == "EndRun" {
        // every map is gone: no zero-sized key or value may be alive (nor dropped once too often)
        let (zk, zv) = gverif_zst_live();
        e["zl"] = json!([zk, zv]);
    }
    if cfg!(miri) && e["op"] == "EndRun" {
        e["par"] = json!(1); // allocation counts are meaningless under Miri (no alignment filter)
    }
    let e = &e;
    serde_json::to_writer(&mut *out, e).unwrap();
    out.write_all(b"\n").unwrap();
    out.flush().unwrap();
}

fn run_random<K: KeyT, V: ValT>(a: &Args) {
    let mut out = BufWriter::new(std::fs::File::create(a.get("out", "/dev/stdout")).unwrap());
    let runs = a.num("runs", 1);
    let events = a.num("events", 200);
    let seed = a.num("seed", 1);
    emit(&mut out, &header::<K>(a, json!({"mode":"random"})));
    // --first: index of the first run (hasher class / key universe are chosen by the run index, so a
    // suite split over several files still walks through all of them)
    let first = a.num("first", 0);
    for run in first..first + runs {
        let mut w: World<K, V> = World::new(2, a.num("content-limit", 96) as usize);
        w.nolive = a.flag("par") || cfg!(miri);
        let hm = if a.m.contains_key("hm") { a.num("hm", 0) as u8 } else { (run % 3) as u8 };
        let nkeys = if a.m.contains_key("nkeys") { a.num("nkeys", 40) as u32 } else { [12u32, 24, 40, 60][(run / 3 % 4) as usize] };
        let mut g = gen::Gen {
            cfg: gen::GenCfg { nkeys, set: a.flag("set"), two: a.flag("two"), hm, limits: a.flag("limits"), zst: K::NAME == "zst", par: a.flag("par"), serde: a.flag("serde"), entry: a.flag("entry") },
            rng: SmallRng::seed_from_u64(seed.wrapping_mul(1000003).wrapping_add(run)),
            promised: false,
        };
        rebase_live();
        emit(&mut out, &json!({"op":"Reset","run":run,"hm":hm,"nkeys":nkeys}));
        if !a.flag("par") && !a.flag("serde") {
            // default-hasher constructors (no slot involved)
            let cap = [0usize, 1, 3, 4, 7, 8, 14, 28, 29, 57, 100, 449][(run % 12) as usize];
            let ev = w.exec(&json!({"op":"NewDflt","ty": if a.flag("set") { "set" } else { "map" },"cap":cap}));
            emit(&mut out, &ev);
        }
        if a.flag("serde") && K::NAME != "zst" {
            // one large deserialisation per run (the lengths straddle serde's 4096-element pre-sizing clamp and the
            // capacity of the table that clamp produces)
            let n = [7169u32, 300, 8000, 4097, 7168, 9000][(run % 6) as usize];
            let ev = w.exec(&json!({"op":"SerdeBig","d":2,"n":n,"hm":hm,"ty": if a.flag("set") { "set" } else { "map" }}));
            emit(&mut out, &ev);
            let ev = w.exec(&json!({"op":"DropMap","s":2}));
            emit(&mut out, &ev);
        }
        for _ in 0..events {
            let op = g.next_op(&w);
            let ev = w.exec(&op);
            emit(&mut out, &ev);
        }
        // end of run: drop everything, one event per slot, then the ledger must be empty
        for s in 1..w.slots.len() {
            if w.alive(s) {
                let ev = w.exec(&json!({"op":"DropMap","s":s}));
                emit(&mut out, &ev);
            }
        }
        let live = live_ids();
        let mut end = json!({"op":"EndRun","live_ids": live, "live_allocs": live_tables()});
        if a.flag("par") || cfg!(miri) {
            end["par"] = json!(1);
        }
        emit(&mut out, &end);
    }
}

/// Crash-point enumeration (C07): for sampled (state, operation) pairs, the operation is run once
/// to count its callbacks, then once per callback kind and index with a fuse that panics there.
fn run_faults<K: KeyT, V: ValT>(a: &Args) {
    use rand::Rng;
    let mut out = BufWriter::new(std::fs::File::create(a.get("out", "/dev/stdout")).unwrap());
    let states = a.num("states", 10);
    let seed = a.num("seed", 1);
    let follow = a.num("follow", 6);
    let maxper = a.num("max-per-kind", 10);
    emit(&mut out, &header::<K>(a, json!({"mode":"faults"})));
    let mut seg = 0u32;
    // --first: index of the first sampled state, so that a suite split over several files still walks
    // through all operation templates (the template is chosen by the state index)
    let first = a.num("first", 0);
    for si in first..first + states {
        let hm = (si % 3) as u8;
        let nkeys = [12u32, 24, 40][(si / 3 % 3) as usize];
        let mk = |sd: u64| gen::Gen {
            cfg: gen::GenCfg { nkeys, set: a.flag("set"), two: a.flag("two"), hm, limits: false, zst: K::NAME == "zst", par: false, serde: false, entry: false },
            rng: SmallRng::seed_from_u64(sd),
            promised: false,
        };
        let mut g = mk(seed.wrapping_mul(7777).wrapping_add(si));
        // prefix: generated by executing on a scratch world, steered into a target phase
        // (most states: a resize pending with several elements still in the old table)
        let want_split = si % 4 != 3;
        let plen = g.rng.gen_range(5..60);
        let mut w0: World<K, V> = World::new(2, if a.flag("phases") { 400 } else { 64 });
        w0.silent = true;
        let mut prefix = Vec::new();
        // --phases: the state is one of the matrix's structural phases (built deterministically), so that
        // every operation template is interrupted at every crash point in every phase
        let phases = a.flag("phases");
        if phases {
            let phase = si % MATRIX_PHASES;
            let big = if (si / (MATRIX_PHASES * 18)) % 2 == 0 { 28usize } else { 56 };
            let zst = K::NAME == "zst";
            let mut exq = |w: &mut World<K, V>, mut op: Value| {
                if zst {
                    zero_vals(&mut op);
                }
                if let Some(o) = w.resolve(&op) {
                    w.exec(&o);
                    prefix.push(o);
                }
            };
            build_phase(&mut w0, &mut exq, phase, a.flag("set"), hm, big);
        }
        for i in 0..(if phases { 0 } else { 400 }) {
            if i >= plen {
                let ok = match w0.vstate(1) {
                    Some(st) => !want_split || (st.split && st.old_len >= 3) || K::NAME == "zst",
                    None => false,
                };
                if ok || i >= 399 {
                    break;
                }
            }
            let op = g.next_op(&w0);
            w0.exec(&op);
            prefix.push(op);
        }
        let two = a.flag("two");
        if two && !w0.alive(2) {
            let op = json!({"op":"Clone","s":1,"d":2});
            w0.exec(&op);
            prefix.push(op);
            for _ in 0..g.rng.gen_range(0..6) {
                let op = g.next_op(&w0);
                if op["op"] == "DropMap" || op["op"] == "IntoIter" { continue; }
                w0.exec(&op);
                prefix.push(op);
            }
        }
        // the operation to fault: stratified over operation templates (each one comes round
        // every few states), parameters chosen from the observed state
        let mut x = Value::Null;
        if w0.alive(1) {
            let st = w0.vstate(1).unwrap();
            let cap = st.main_cap;
            let v = |g: &mut gen::Gen| g.rng.gen_range(0..10u32);
            let zst = K::NAME == "zst";
            let vv = if zst { 0 } else { v(&mut g) };
            let addv = if zst { 0 } else { 3 };
            let set = a.flag("set");
            let t = if phases { (si / MATRIX_PHASES) % 18 } else { (si / 1) % 18 };
            let oldk = json!({"cls":"old","i": g.rng.gen_range(0..40)});
            let maink = json!({"cls":"main","i": g.rng.gen_range(0..40)});
            let absent = json!({"cls":"absent","i": g.rng.gen_range(0..40)});
            let anyk = if g.rng.gen_bool(0.6) { oldk.clone() } else { maink.clone() };
            let items: Vec<Value> = (0..6).map(|i| json!([if zst {0} else { 2000 + i }, vv])).collect();
            let tmpl = if !set {
                match t {
                    0 => json!({"op":"Insert","s":1,"k":absent,"v":vv}),
                    1 => json!({"op":"Insert","s":1,"k":oldk,"v":vv}),
                    2 => json!({"op":"Reserve","s":1,"n": 2 * cap + 3}),
                    3 => json!({"op":"TryReserve","s":1,"n": cap + 1}),
                    4 => json!({"op":"ShrinkToFit","s":1}),
                    5 => json!({"op":"Entry","s":1,"k":anyk,"chain":[{"m":"and_modify","add":addv},{"m":"or_insert_with","v":vv},{"m":"read"}]}),
                    6 => json!({"op":"Entry","s":1,"k":oldk,"chain":[{"m":"match"},{"m":"o_replace_entry_with"},{"m":"match"},{"m":"v_insert","v":vv}]}),
                    7 => json!({"op":"Entry","s":1,"k":oldk,"chain":[{"m":"and_replace_entry_with","some":vv},{"m":"or_insert_with_key","v":vv}]}),
                    8 => json!({"op":"RawEntry","s":1,"k":absent,"via":"key","chain":[{"m":"or_insert_with","v":vv},{"m":"read"}]}),
                    9 => json!({"op":"Retain","s":1,"pred":{"mod":2,"rem":0},"add":addv}),
                    10 => json!({"op":"DrainFilter","s":1,"pred":{"mod":2,"rem":1},"end":"drop","take":1}),
                    11 => json!({"op":"Extend","s":1,"items":items,"hint":6}),
                    12 => json!({"op":"Remove","s":1,"k":oldk}),
                    13 => json!({"op":"RawEntry","s":1,"k":oldk,"via":"hash","chain":[{"m":"match"},{"m":"o_replace_entry_with","some":vv},{"m":"match"},{"m":"o_remove"}]}),
                    14 if two => json!({"op":"Clone","s":1,"d":2}),
                    15 if two => json!({"op":"CloneFrom","s":1,"d":2}),
                    16 if two => json!({"op":"CloneFrom","s":2,"d":1}),
                    17 if two => json!({"op":"Eq","s":1,"d":2}),
                    _ => json!({"op":"Reserve","s":1,"n": cap + 1 + (si as usize % 7)}),
                }
            } else {
                match t % 12 {
                    0 => json!({"op":"SInsert","s":1,"k":absent}),
                    1 => json!({"op":"SInsert","s":1,"k":oldk}),
                    2 => json!({"op":"Reserve","s":1,"n": 2 * cap + 3}),
                    3 => json!({"op":"SReplace","s":1,"k":oldk}),
                    4 => json!({"op":"SGetOrInsertWith","s":1,"k":absent}),
                    5 => json!({"op":"SGetOrInsertOwned","s":1,"k":absent}),
                    6 => json!({"op":"Retain","s":1,"pred":{"mod":2,"rem":0}}),
                    7 => json!({"op":"DrainFilter","s":1,"pred":{"mod":2,"rem":1},"end":"drop","take":1}),
                    8 => json!({"op":"Extend","s":1,"items":items,"hint":6}),
                    9 if two => json!({"op":"SAlg","s":1,"d":2,"kind":"symmetric_difference","hm":hm}),
                    10 if two => json!({"op":"CloneFrom","s":1,"d":2}),
                    11 if two => json!({"op":"SAlg","s":1,"d":2,"kind":"is_subset","hm":hm}),
                    _ => json!({"op":"STake","s":1,"k":oldk}),
                }
            };
            if let Some(o) = w0.resolve(&tmpl) {
                x = o;
            }
        }
        if x.is_null() {
            x = g.next_op(&w0);
            for _ in 0..20 {
                let n = x["op"].as_str().unwrap_or("");
                if n != "New" && n != "DropMap" && n != "FromIter" {
                    break;
                }
                if n != "DropMap" {
                    w0.exec(&x);
                    prefix.push(x.clone());
                }
                x = g.next_op(&w0);
            }
        }
        w0.silent = false;
        let ev0 = w0.exec(&x);
        let c = &ev0["cost"];
        let counts = [c["h"].as_u64().unwrap_or(0), c["eq"].as_u64().unwrap_or(0), c["cl"].as_u64().unwrap_or(0), c["fn"].as_u64().unwrap_or(0)];
        drop(w0);
        for kind in 0..4usize {
            let n = counts[kind];
            let picks: Vec<u64> = if n <= maxper { (1..=n).collect() } else {
                let mut v: Vec<u64> = vec![1, 2, n - 1, n];
                while (v.len() as u64) < maxper { v.push(g.rng.gen_range(1..=n)); }
                v.sort(); v.dedup(); v
            };
            for at in picks {
                seg += 1;
                let mut calls: Vec<Value> = Vec::new(); // the concrete calls of the faulted segment, re-used by its twin
                for twin in 0..2u32 {
                    let mut w: World<K, V> = World::new(2, if a.flag("phases") { 400 } else { 64 });
                    w.silent = true;
                    for op in &prefix {
                        w.exec(op);
                    }
                    w.silent = false;
                    rebase_live();
                    let live_now: i64 = (1..w.slots.len()).filter(|&s| w.alive(s)).map(|s| {
                        let st = w.vstate(s).unwrap();
                        (st.main_buckets > 1) as i64 + st.split as i64
                    }).sum();
                    LIVE_BASE.fetch_sub(live_now, std::sync::atomic::Ordering::Relaxed);
                    // the silently replayed prefix travels with the segment, so that a cut-out segment is a
                    // self-contained replay script; twin = 1 is the fault-free control making the same calls
                    let mut reset = json!({"op":"Reset","state":si,"hm":hm,"nkeys":nkeys,"seg":seg,"twin":twin,"prefix":prefix.len(),"prefix_ops":prefix});
                    if twin == 1 {
                        reset["baseline"] = json!(1);
                    }
                    emit(&mut out, &reset);
                    // objects leaked before this point (forgotten iterators in earlier segments / the prefix)
                    let snap = w.snapshot();
                    let mut held = std::collections::BTreeSet::new();
                    for sl in snap.as_array().unwrap() {
                        for t in ["main", "old"] {
                            if let Some(a) = sl.get(t).and_then(|x| x.as_array()) {
                                for e in a {
                                    held.insert(e[2].as_u64().unwrap_or(0) as u32);
                                    held.insert(e[3].as_u64().unwrap_or(0) as u32);
                                }
                            }
                        }
                    }
                    let leaked: Vec<u32> = live_ids().into_iter().filter(|i| !held.contains(i)).collect();
                    emit(&mut out, &json!({"op":"Snap","st": snap,"leaked":leaked,"cost":{"live": live_tables()},"led":{"dd":[],"dead":[],"drop":[],"new":[]}}));
                    let mut idx = 0u32;
                    let mut put = |w: &mut World<K, V>, op: &Value, idx: &mut u32, out: &mut BufWriter<std::fs::File>| {
                        let mut ev = w.exec(op);
                        ev["seg"] = json!(seg);
                        ev["twin"] = json!(twin);
                        ev["i"] = json!(*idx);
                        *idx += 1;
                        emit(out, &ev);
                    };
                    if twin == 0 {
                        let mut xf = x.clone();
                        xf["fault"] = json!({"kind":kind,"at":at,"of":n});
                        put(&mut w, &xf, &mut idx, &mut out);
                        // every iterated element must be found by get (sweep all keys of small maps)
                        for sl in 1..w.slots.len() {
                            if !w.alive(sl) {
                                continue;
                            }
                            let (ka, kb) = w.keys_by_table(sl);
                            let is_map = w.is_map(sl);
                            for k in ka.iter().chain(kb.iter()).take(24) {
                                let op = if is_map { json!({"op":"Get","s":sl,"k":k,"kind":"get"}) } else { json!({"op":"SContains","s":sl,"k":k}) };
                                put(&mut w, &op, &mut idx, &mut out);
                                calls.push(op);
                            }
                        }
                        let mut g2 = mk(seed.wrapping_mul(31).wrapping_add(si * 1000 + kind as u64 * 100 + at));
                        for _ in 0..follow {
                            let op = g2.next_op(&w);
                            put(&mut w, &op, &mut idx, &mut out);
                            calls.push(op);
                        }
                    } else {
                        put(&mut w, &x, &mut idx, &mut out);
                        for op in &calls {
                            // a call may not be applicable to the fault-free state (its slot was consumed, ...)
                            let s_ = op.get("s").and_then(|v| v.as_u64()).unwrap_or(1) as usize;
                            let d_ = op.get("d").and_then(|v| v.as_u64()).map(|v| v as usize);
                            let nm = op["op"].as_str().unwrap_or("");
                            let needs_alive = !(nm == "New" || nm == "FromIter");
                            if (needs_alive && !w.alive(s_)) || (nm != "Clone" && d_.map_or(false, |d| !w.alive(d))) {
                                idx += 1;
                                continue;
                            }
                            put(&mut w, op, &mut idx, &mut out);
                        }
                    }
                    for s in 1..w.slots.len() {
                        if w.alive(s) {
                            let ev = w.exec(&json!({"op":"DropMap","s":s}));
                            emit(&mut out, &ev);
                        }
                    }
                    emit(&mut out, &json!({"op":"EndRun","live_ids": live_ids(), "live_allocs": live_tables()}));
                }
            }
        }
    }
}

/// Large maps (counters only): many table doublings with the production constant R, with
/// overwrites, lookups and removals mixed in; every call's hash/move/allocation counts are logged.
fn run_big<K: KeyT, V: ValT>(a: &Args) {
    use rand::Rng;
    let mut out = BufWriter::new(std::fs::File::create(a.get("out", "/dev/stdout")).unwrap());
    let n = a.num("n", 20000) as u32;
    let seed = a.num("seed", 1);
    let hm = a.num("hm", 0) as u8;
    emit(&mut out, &header::<K>(a, json!({"mode":"big","n":n})));
    let mut rng = SmallRng::seed_from_u64(seed.wrapping_mul(5471));
    let mut w: World<K, V> = World::new(1, 0);
    rebase_live();
    emit(&mut out, &json!({"op":"Reset","n":n,"hm":hm}));
    let mut ex = |w: &mut World<K, V>, op: Value| {
        let ev = w.exec(&op);
        emit(&mut out, &ev);
    };
    ex(&mut w, json!({"op":"New","s":1,"ty":"map","cap":0,"hm":hm,"hs":0}));
    let mut next = 1u32;
    let mut lo = 1u32; // keys lo..next are present (removals take from the low end or at random)
    while next <= n {
        let r = rng.gen_range(0..100);
        if r < 70 || next - lo < 4 {
            ex(&mut w, json!({"op":"Insert","s":1,"k":next,"v":rng.gen_range(0..10)}));
            next += 1;
        } else if r < 80 {
            let k = rng.gen_range(lo..next);
            ex(&mut w, json!({"op":"Insert","s":1,"k":k,"v":rng.gen_range(0..10)}));
        } else if r < 88 {
            let k = rng.gen_range(lo..next + 3);
            ex(&mut w, json!({"op":"Get","s":1,"k":k,"kind":"get"}));
        } else if r < 96 {
            ex(&mut w, json!({"op":"Remove","s":1,"k":lo}));
            lo += 1;
        } else {
            let k = rng.gen_range(lo..next);
            ex(&mut w, json!({"op":"Entry","s":1,"k":k,"chain":[{"m":"and_modify","add":1},{"m":"or_insert","v":1},{"m":"read"}]}));
        }
    }
    ex(&mut w, json!({"op":"DropMap","s":1}));
    drop(ex);
    emit(&mut out, &json!({"op":"EndRun","live_ids": live_ids(), "live_allocs": live_tables()}));
}

/// Tombstone-steered histories: fill a table, punch tombstones into it by removals at high load,
/// refill it until growth_left is exhausted while tombstones are still there, then keep going.
/// (Uniformly random histories almost never reach "full, with tombstones, no resize pending".)
fn run_tomb<K: KeyT, V: ValT>(a: &Args) {
    use rand::seq::SliceRandom;
    use rand::Rng;
    let mut out = BufWriter::new(std::fs::File::create(a.get("out", "/dev/stdout")).unwrap());
    let runs = a.num("runs", 4);
    let seed = a.num("seed", 1);
    emit(&mut out, &header::<K>(a, json!({"mode":"tomb"})));
    let mut rng = SmallRng::seed_from_u64(seed.wrapping_mul(9176));
    let first = a.num("first", 0);
    for run in first..first + runs {
        let hm = [0u8, 0, 1, 2][(run % 4) as usize];
        let cap = [28usize, 56, 14, 112][(run / 4 % 4) as usize];
        let mut w: World<K, V> = World::new(2, 260);
        rebase_live();
        emit(&mut out, &json!({"op":"Reset","run":run,"hm":hm,"cap":cap}));
        let mut next_key = 1u32;
        let mut ex = |w: &mut World<K, V>, op: Value| {
            let ev = w.exec(&op);
            emit(&mut out, &ev);
        };
        ex(&mut w, json!({"op":"New","s":1,"ty":"map","cap":cap,"hm":hm,"hs":0}));
        for cycle in 0..3 {
            // fill to (almost) full
            let slack = rng.gen_range(0..3usize);
            loop {
                let st = w.vstate(1).unwrap();
                if st.split || st.main_cap <= st.main_len + slack {
                    break;
                }
                ex(&mut w, json!({"op":"Insert","s":1,"k":next_key,"v":rng.gen_range(0..10)}));
                next_key += 1;
            }
            // punch holes
            let (mut ka, _) = w.keys_by_table(1);
            ka.shuffle(&mut rng);
            let m = rng.gen_range(2..10usize).min(ka.len());
            for &k in ka.iter().take(m) {
                let op = match rng.gen_range(0..4) {
                    0 => json!({"op":"RemoveEntry","s":1,"k":k}),
                    1 => json!({"op":"Entry","s":1,"k":k,"chain":[{"m":"match"},{"m":"o_remove"}]}),
                    2 => json!({"op":"Retain","s":1,"pred":{"keys": ka.iter().filter(|&&x| x != k).collect::<Vec<_>>()}}),
                    _ => json!({"op":"Remove","s":1,"k":k}),
                };
                ex(&mut w, op);
            }
            if cycle == 1 && rng.gen_bool(0.5) {
                ex(&mut w, json!({"op":"Clone","s":1,"d":2}));
                ex(&mut w, json!({"op":"Eq","s":1,"d":2}));
                ex(&mut w, json!({"op":"DropMap","s":2}));
            }
            // refill until growth_left is exhausted (capacity() == len()), tombstones permitting
            for _ in 0..300 {
                let st = w.vstate(1).unwrap();
                if st.split || st.main_cap == st.main_len {
                    break;
                }
                match rng.gen_range(0..10) {
                    0 => {
                        let (ka, _) = w.keys_by_table(1);
                        if let Some(&k) = ka.choose(&mut rng) {
                            ex(&mut w, json!({"op":"Get","s":1,"k":k,"kind":"get"}));
                        }
                    }
                    1 => ex(&mut w, json!({"op":"Reserve","s":1,"n":0})),
                    _ => {
                        ex(&mut w, json!({"op":"Insert","s":1,"k":next_key,"v":rng.gen_range(0..10)}));
                        next_key += 1;
                    }
                }
            }
            if rng.gen_bool(0.3) {
                ex(&mut w, json!({"op":"Probe","s":1}));
            }
            // now the interesting calls: key-adding calls (and friends) on a table that is full
            match rng.gen_range(0..6) {
                0 => ex(&mut w, json!({"op":"Entry","s":1,"k":next_key,"chain":[{"m":"or_insert","v":1},{"m":"write","w":2}]})),
                1 => ex(&mut w, json!({"op":"RawEntry","s":1,"k":next_key,"via":"key","chain":[{"m":"match"},{"m":"v_insert","v":1},{"m":"read"}]})),
                2 => ex(&mut w, json!({"op":"TryReserve","s":1,"n":1})),
                3 => ex(&mut w, json!({"op":"ShrinkToFit","s":1})),
                _ => ex(&mut w, json!({"op":"Insert","s":1,"k":next_key,"v":1})),
            }
            next_key += 1;
            for _ in 0..rng.gen_range(2..8) {
                ex(&mut w, json!({"op":"Insert","s":1,"k":next_key,"v":rng.gen_range(0..10)}));
                next_key += 1;
            }
            // let the resize finish (or not) and go round again on the bigger table
            if w.vstate(1).unwrap().main_buckets > 256 {
                break;
            }
        }
        ex(&mut w, json!({"op":"Iter","s":1,"kind":"iter","extra":1}));
        ex(&mut w, json!({"op":"DropMap","s":1}));
        // exact-fit scenario: a pending resize whose old table holds a multiple of R elements,
        // shrunk to the bare minimum, then filled to capacity (and one more)
        let cap2 = [0usize, 3, 14, 28][(run % 4) as usize];
        ex(&mut w, json!({"op":"New","s":1,"ty":"map","cap":cap2,"hm":hm,"hs":0}));
        for _ in 0..200 {
            let st = w.vstate(1).unwrap();
            if st.split && st.old_len >= 8 {
                break;
            }
            ex(&mut w, json!({"op":"Insert","s":1,"k":next_key,"v":1}));
            next_key += 1;
        }
        let r = w.vstate(1).unwrap().r;
        for _ in 0..40 {
            let st = w.vstate(1).unwrap();
            if !st.split || st.old_len % r == 0 {
                break;
            }
            if let Some(o) = w.resolve(&json!({"op":"Remove","s":1,"k":{"cls":"old","i":rng.gen_range(0..50)}})) {
                ex(&mut w, o);
            }
        }
        // remove elements until main + old + ceil(old/R) is exactly a hashbrown capacity, with the old
        // table still holding a multiple of R: shrink_to_fit then leaves no slack at all
        {
            let st = w.vstate(1).unwrap();
            let (mut rm_old, mut rm_main) = (0usize, rng.gen_range(0..5usize).min(st.main_len));
            'search: for oo in (1..=st.old_len / r).rev().map(|x| x * r) {
                let need_old = oo + oo / r;
                for t in [3usize, 7, 14, 28, 56, 112] {
                    if t >= need_old && t - need_old <= st.main_len {
                        rm_old = st.old_len - oo;
                        rm_main = st.main_len - (t - need_old);
                        break 'search;
                    }
                }
            }
            for _ in 0..rm_old {
                if let Some(o) = w.resolve(&json!({"op":"Remove","s":1,"k":{"cls":"old","i":rng.gen_range(0..50)}})) {
                    ex(&mut w, o);
                }
            }
            for _ in 0..rm_main {
                if let Some(o) = w.resolve(&json!({"op":"Remove","s":1,"k":{"cls":"main","i":rng.gen_range(0..50)}})) {
                    ex(&mut w, o);
                }
            }
        }
        ex(&mut w, json!({"op":"ShrinkToFit","s":1}));
        ex(&mut w, json!({"op":"Probe","s":1}));
        for _ in 0..3 {
            ex(&mut w, json!({"op":"Insert","s":1,"k":next_key,"v":1}));
            next_key += 1;
        }
        ex(&mut w, json!({"op":"DropMap","s":1}));
        drop(ex);
        emit(&mut out, &json!({"op":"EndRun","live_ids": live_ids(), "live_allocs": live_tables()}));
    }
}

/// Metamorphic histories (C14): the same contents reached by different histories, in different
/// resize phases, capacities and hasher states; then one-entry-different variants.
fn run_meta<K: KeyT, V: ValT>(a: &Args) {
    use rand::seq::SliceRandom;
    use rand::Rng;
    let mut out = BufWriter::new(std::fs::File::create(a.get("out", "/dev/stdout")).unwrap());
    let cases = a.num("cases", 10);
    let seed = a.num("seed", 1);
    let set = a.flag("set");
    let ty = if set { "set" } else { "map" };
    emit(&mut out, &header::<K>(a, json!({"mode":"meta"})));
    let mut rng = SmallRng::seed_from_u64(seed.wrapping_mul(424243));
    let first = a.num("first", 0);
    for case in first..first + cases {
        let hm = (case % 3) as u8;
        let zst = K::NAME == "zst";
        let universe = [10u32, 20, 40, 60][(case / 3 % 4) as usize];
        let n = if zst { rng.gen_range(0..2) } else { rng.gen_range(0..universe.min(48)) as usize };
        let mut keys: Vec<u32> = (1..=universe).collect();
        keys.shuffle(&mut rng);
        keys.truncate(n);
        if zst {
            keys = keys.iter().map(|_| 0).collect();
        }
        let vals: Vec<u32> = keys.iter().map(|_| if zst || set { 0 } else { rng.gen_range(0..10) }).collect();
        let mut w: World<K, V> = World::new(3, 200);
        rebase_live();
        emit(&mut out, &json!({"op":"Reset","case":case,"hm":hm,"n":n}));
        let mut ex = |w: &mut World<K, V>, op: Value| {
            if let Some(o) = w.resolve(&op) {
                let ev = w.exec(&o);
                emit(&mut out, &ev);
            }
        };
        let ins = |s: usize, k: u32, v: u32| if set { json!({"op":"SInsert","s":s,"k":k}) } else { json!({"op":"Insert","s":s,"k":k,"v":v}) };
        let rem = |s: usize, k: u32| if set { json!({"op":"SRemove","s":s,"k":k}) } else { json!({"op":"Remove","s":s,"k":k}) };
        // slot 1: ascending insertion, default capacity
        ex(&mut w, json!({"op":"New","s":1,"ty":ty,"cap":0,"hm":hm,"hs":0}));
        let mut order: Vec<usize> = (0..keys.len()).collect();
        order.sort_by_key(|&i| keys[i]);
        for &i in &order {
            ex(&mut w, ins(1, keys[i], vals[i]));
        }
        // slot 2: descending, other capacity and hasher state, detours through temporary keys, then shrink
        let cap2 = *[1usize, 7, 29, 100].choose(&mut rng).unwrap();
        ex(&mut w, json!({"op":"New","s":2,"ty":ty,"cap":cap2,"hm":hm,"hs":1}));
        let mut temps = Vec::new();
        for (j, &i) in order.iter().rev().enumerate() {
            ex(&mut w, ins(2, keys[i], if zst { 0 } else { (vals[i] + 1) % 10 }));
            if j % 3 == 0 && !zst {
                let t = 1000 + j as u32;
                ex(&mut w, ins(2, t, 0));
                temps.push(t);
            }
        }
        for &i in &order {
            ex(&mut w, ins(2, keys[i], vals[i])); // overwrite with the final values
        }
        for t in temps {
            ex(&mut w, rem(2, t));
        }
        if rng.gen_bool(0.5) {
            ex(&mut w, json!({"op":"ShrinkToFit","s":2}));
        }
        // slot 3: random order, then forced into a pending resize with some elements moved
        ex(&mut w, json!({"op":"New","s":3,"ty":ty,"cap":0,"hm":hm,"hs":2}));
        let mut o3 = order.clone();
        o3.shuffle(&mut rng);
        for &i in &o3 {
            ex(&mut w, ins(3, keys[i], vals[i]));
        }
        ex(&mut w, json!({"op":"Reserve","s":3,"n":{"rel":"cap","d":1}}));
        for &i in o3.iter().take(rng.gen_range(0..3)) {
            ex(&mut w, ins(3, keys[i], vals[i]));
        }
        // content-neutral detour (two cases out of three): every element still in the old table is visited
        // through an API that hands it out and puts it back unchanged -- replace_entry_with(Some(same)),
        // and_modify(+0), raw-entry replace, get_mut without a write, set replace / get_or_insert of an
        // equal element.  The contents are what they were, so nothing observable may differ afterwards.
        if case % 3 != 2 && !zst {
            let (_, oldk) = w.keys_by_table(3);
            for (j, k) in oldk.into_iter().enumerate() {
                let v = keys.iter().position(|&x| x == k).map(|i| vals[i]).unwrap_or(0);
                let o = if set {
                    match (j + case as usize) % 3 {
                        0 => json!({"op":"SReplace","s":3,"k":k}),
                        1 => json!({"op":"SGetOrInsert","s":3,"k":k}),
                        _ => json!({"op":"SGet","s":3,"k":k}),
                    }
                } else {
                    match (j + case as usize) % 4 {
                        0 => json!({"op":"Entry","s":3,"k":k,"chain":[{"m":"match"},{"m":"o_replace_entry_with","some":v},{"m":"match"},{"m":"o_get"}]}),
                        1 => json!({"op":"Entry","s":3,"k":k,"chain":[{"m":"and_replace_entry_with","some":v},{"m":"and_modify","add":0},{"m":"key"}]}),
                        2 => json!({"op":"RawEntry","s":3,"k":k,"via":"hash","chain":[{"m":"match"},{"m":"o_replace_entry_with","some":v},{"m":"match"},{"m":"o_get"}]}),
                        _ => json!({"op":"Get","s":3,"k":k,"kind":"get_mut"}),
                    }
                };
                ex(&mut w, o);
            }
        }
        // in half of the cases the second map is then overwritten by clone_from of the third one (a
        // source that is mid-resize, into a destination with another allocation and hasher state)
        if rng.gen_bool(0.5) {
            ex(&mut w, json!({"op":"CloneFrom","s":3,"d":2}));
        }
        // observations
        let observe = |w: &mut World<K, V>, ex: &mut dyn FnMut(&mut World<K, V>, Value)| {
            for (a_, b_) in [(1, 1), (1, 2), (2, 1), (2, 3), (3, 2), (1, 3), (3, 1), (3, 3)] {
                ex(w, json!({"op":"Eq","s":a_,"d":b_}));
            }
            for s in 1..=3 {
                ex(w, json!({"op":"Debug","s":s}));
                if set {
                    ex(w, json!({"op":"Iter","s":s,"kind":"iter","extra":1}));
                } else {
                    for kind in ["iter", "keys", "values"] {
                        ex(w, json!({"op":"Iter","s":s,"kind":kind,"extra":1}));
                    }
                }
            }
        };
        observe(&mut w, &mut ex);
        for s in 1..=3usize {
            let absent: &[u32] = if zst { &[] } else { &[7777, 8888] };
            for &k in keys.iter().chain(absent.iter()) {
                if set {
                    ex(&mut w, json!({"op":"SContains","s":s,"k":k}));
                } else {
                    ex(&mut w, json!({"op":"Get","s":s,"k":k,"kind":"get"}));
                }
            }
        }
        // one-entry-different variants, preferably touching an element that is still in the old table
        match rng.gen_range(0..3) {
            0 if !set && !keys.is_empty() => ex(&mut w, json!({"op":"Get","s":3,"k":{"cls":"old","i":rng.gen_range(0..50)},"kind":"get_mut","w": if zst { 0 } else { 77 }})),
            1 if !keys.is_empty() => ex(&mut w, {
                let mut o = rem(3, 0);
                o["k"] = json!({"cls":"old","i":rng.gen_range(0..50)});
                o
            }),
            _ => ex(&mut w, ins(3, if zst { 0 } else { 5555 }, if zst { 0 } else { 3 })),
        }
        for (a_, b_) in [(1, 3), (3, 1), (2, 3), (3, 2), (1, 2)] {
            ex(&mut w, json!({"op":"Eq","s":a_,"d":b_}));
        }
        for s in 1..=3 {
            ex(&mut w, json!({"op":"DropMap","s":s}));
        }
        // empty maps with different pasts: never used / emptied while a resize was pending, the old table
        // emptied by retain (it stays attached) and then the main table emptied too / filled and cleared
        ex(&mut w, json!({"op":"New","s":1,"ty":ty,"cap":0,"hm":hm,"hs":0}));
        ex(&mut w, json!({"op":"New","s":2,"ty":ty,"cap":0,"hm":hm,"hs":1}));
        if zst {
            ex(&mut w, ins(2, 0, 0));
            ex(&mut w, json!({"op":"Reserve","s":2,"n":{"rel":"cap","d":1}}));
        } else {
            for k in 1..=60u32 {
                ex(&mut w, ins(2, k, if set { 0 } else { 1 }));
                let st = w.vstate(2).unwrap();
                if st.split && st.old_len >= 1 && k >= 10 {
                    break;
                }
            }
        }
        ex(&mut w, json!({"op":"Retain","s":2,"pred":{"table":"main"}}));
        if rng.gen_bool(0.5) {
            ex(&mut w, json!({"op":"Retain","s":2,"pred":{"none":1}}));
        } else {
            let (ka, _) = w.keys_by_table(2);
            for k in ka {
                ex(&mut w, rem(2, k));
            }
        }
        ex(&mut w, json!({"op":"New","s":3,"ty":ty,"cap":*[0usize, 7, 29].choose(&mut rng).unwrap(),"hm":hm,"hs":2}));
        for k in 1..=(if zst { 1 } else { rng.gen_range(1..20u32) }) {
            ex(&mut w, ins(3, if zst { 0 } else { k }, if zst { 0 } else { 2 }));
        }
        ex(&mut w, if rng.gen_bool(0.5) { json!({"op":"Clear","s":3}) } else { json!({"op":"Drain","s":3,"end":"drop","take":0}) });
        observe(&mut w, &mut ex);
        for s in 1..=3 {
            if set {
                ex(&mut w, json!({"op":"SContains","s":s,"k": if zst { 0 } else { 3 }}));
            } else {
                ex(&mut w, json!({"op":"Get","s":s,"k": if zst { 0 } else { 3 },"kind":"get"}));
            }
            ex(&mut w, json!({"op":"DropMap","s":s}));
        }
        drop(ex);
        emit(&mut out, &json!({"op":"EndRun","live_ids": live_ids(), "live_allocs": live_tables()}));
    }
}

fn run_script<K: KeyT, V: ValT>(a: &Args) {
    let mut out = BufWriter::new(std::fs::File::create(a.get("out", "/dev/stdout")).unwrap());
    let f = std::fs::File::open(a.get("script", "")).expect("script");
    let mut w: World<K, V> = World::new(4, a.num("content-limit", 96) as usize);
    emit(&mut out, &header::<K>(a, json!({"mode":"script"})));
    rebase_live();
    for line in std::io::BufReader::new(f).lines() {
        let line = line.unwrap();
        if line.trim().is_empty() {
            continue;
        }
        let op: Value = serde_json::from_str(&line).expect("json");
        match op["op"].as_str().unwrap_or("") {
            "Header" => continue,
            "Reset" => {
                w = World::new(4, a.num("content-limit", 96) as usize);
                rebase_live();
                emit(&mut out, &op);
                if let Some(pre) = op.get("prefix_ops").and_then(|x| x.as_array()) {
                    // crash-point segment: rebuild the state silently, then say where we are
                    w.silent = true;
                    for o in pre {
                        w.exec(o);
                    }
                    w.silent = false;
                    rebase_live();
                    let live_now: i64 = (1..w.slots.len()).filter(|&s| w.alive(s)).map(|s| {
                        let st = w.vstate(s).unwrap();
                        (st.main_buckets > 1) as i64 + st.split as i64
                    }).sum();
                    LIVE_BASE.fetch_sub(live_now, std::sync::atomic::Ordering::Relaxed);
                    let snap = w.snapshot();
                    let mut held = std::collections::BTreeSet::new();
                    for sl in snap.as_array().unwrap() {
                        for t in ["main", "old"] {
                            if let Some(a) = sl.get(t).and_then(|x| x.as_array()) {
                                for e in a {
                                    held.insert(e[2].as_u64().unwrap_or(0) as u32);
                                    held.insert(e[3].as_u64().unwrap_or(0) as u32);
                                }
                            }
                        }
                    }
                    let leaked: Vec<u32> = live_ids().into_iter().filter(|i| !held.contains(i)).collect();
                    emit(&mut out, &json!({"op":"Snap","st": snap,"leaked":leaked,"cost":{"live": live_tables()},"led":{"dd":[],"dead":[],"drop":[],"new":[]}}));
                }
            }
            "Snap" => continue,
            "EndRun" => {
                let live = live_ids();
                emit(&mut out, &json!({"op":"EndRun","live_ids": live, "live_allocs": live_tables()}));
            }
            _ => {
                // strip observation fields so that a recorded trace can be used as a script
                let mut o = op.as_object().cloned().unwrap();
                for k in ["res", "st", "cost", "led", "obs", "calls", "yield", "cyield", "hints", "tail", "kid", "vid", "vids", "ids", "objs", "unused", "big", "par", "visits", "toks", "order", "dbg", "mincap", "k_probe", "seg", "twin", "i"] {
                    o.remove(k);
                }
                match w.resolve(&Value::Object(o)) {
                    Some(o) => {
                        let ev = w.exec(&o);
                        emit(&mut out, &ev);
                    }
                    None => emit(&mut out, &json!({"op":"Skip","why":"empty class","orig":op})),
                }
            }
        }
    }
}

/// Phase x operation matrix: every operation of a fixed list is executed once in every structural phase
/// of a fixed list (deterministically constructed through the hook), followed by the same observations.
/// Random steering reaches these pairs with some probability; this mode reaches each of them in every run.
/// One "run" = one (phase, operation) pair; `--first/--runs` select a range of pair indices.
pub const MATRIX_PHASES: u64 = 11;
/// Builds one of the structural phases of the matrix in slot 1 (deterministically, through the hook).
/// `ex` executes an operation with state-relative fields (and decides what to do with the event).
fn build_phase<K: KeyT, V: ValT>(w: &mut World<K, V>, ex: &mut dyn FnMut(&mut World<K, V>, Value), phase: u64, set: bool, hm: u8, big: usize) {
    let zst = K::NAME == "zst";
    let ty = if set { "set" } else { "map" };
    let ins = |k: Value, v: u32| if set { json!({"op":"SInsert","s":1,"k":k}) } else { json!({"op":"Insert","s":1,"k":k,"v":v}) };
    let rem = |k: Value| if set { json!({"op":"SRemove","s":1,"k":k}) } else { json!({"op":"Remove","s":1,"k":k}) };
    ex(w, json!({"op":"New","s":1,"ty":ty,"cap":0,"hm":hm,"hs":0}));
    let mut nk = 1u32;
    macro_rules! fill_full {
        ($min:expr) => {
            for _ in 0..300 {
                let st = w.vstate(1).unwrap();
                if !st.split && st.main_cap == st.main_len && st.main_len >= $min {
                    break;
                }
                ex(w, ins(json!(nk), nk % 10));
                nk += 1;
            }
        };
    }
    if zst {
        // one element at most: the phases collapse to empty / one in main / one in old / old emptied
        match phase % 4 {
            0 => {}
            1 => ex(w, ins(json!(0), 0)),
            2 => {
                ex(w, ins(json!(0), 0));
                ex(w, json!({"op":"Reserve","s":1,"n":{"rel":"cap","d":1}}));
            }
            _ => {
                ex(w, ins(json!(0), 0));
                ex(w, json!({"op":"Reserve","s":1,"n":{"rel":"cap","d":1}}));
                ex(w, json!({"op":"Retain","s":1,"pred":{"none":1}}));
            }
        }
    } else {
        match phase {
            0 => {}                                  // never allocated
            1 => {
                for _ in 0..5 {
                    ex(w, ins(json!(nk), 1));
                    nk += 1;
                }
            }
            2 => fill_full!(14),                      // one table, growth_left = 0
            3 => {
                // resize just started by reserve: everything in the old table, main table empty
                fill_full!(14);
                ex(w, json!({"op":"Reserve","s":1,"n":{"rel":"cap","d":1}}));
            }
            4 | 5 | 6 | 7 | 9 | 10 => {
                fill_full!(big);
                ex(w, ins(json!(nk), 2));        // growth: R elements moved, the rest parked
                nk += 1;
                if phase == 5 || phase == 9 {
                    ex(w, ins(json!(nk), 2));    // partly moved
                    nk += 1;
                }
                if phase == 6 {
                    // a single element left in the old table
                    for _ in 0..200 {
                        let st = w.vstate(1).unwrap();
                        if !st.split || st.old_len <= 1 {
                            break;
                        }
                        ex(w, rem(json!({"cls":"old","i":1})));
                    }
                }
                if phase == 7 {
                    // old table emptied by retain: it stays attached; main table non-empty
                    ex(w, json!({"op":"Retain","s":1,"pred":{"table":"main"}}));
                }
                if phase == 9 {
                    // main table emptied by removals while the old table still holds elements
                    for _ in 0..200 {
                        let st = w.vstate(1).unwrap();
                        if st.main_len == 0 {
                            break;
                        }
                        ex(w, rem(json!({"cls":"main","i":0})));
                    }
                }
                if phase == 10 && !set {
                    // old table emptied through the entry API (replace_entry_with(None) on every element)
                    for _ in 0..200 {
                        let st = w.vstate(1).unwrap();
                        if !st.split || st.old_len == 0 {
                            break;
                        }
                        ex(w, json!({"op":"Entry","s":1,"k":{"cls":"old","i":0},"chain":[{"m":"match"},{"m":"o_replace_entry_with"}]}));
                    }
                } else if phase == 10 {
                    ex(w, json!({"op":"Retain","s":1,"pred":{"table":"main"}}));
                }
            }
            _ => {
                // 8: old table attached, and both tables empty
                fill_full!(14);
                ex(w, json!({"op":"Reserve","s":1,"n":{"rel":"cap","d":1}}));
                ex(w, json!({"op":"Retain","s":1,"pred":{"none":1}}));
            }
        }
    }
}

fn zero_vals(v: &mut Value) {
    match v {
        Value::Object(m) => {
            for (k, x) in m.iter_mut() {
                if matches!(k.as_str(), "v" | "w" | "some" | "add") && x.is_number() {
                    *x = json!(0);
                } else {
                    zero_vals(x);
                }
            }
        }
        Value::Array(a) => a.iter_mut().for_each(zero_vals),
        _ => {}
    }
}
fn run_matrix<K: KeyT, V: ValT>(a: &Args) {
    let mut out = BufWriter::new(std::fs::File::create(a.get("out", "/dev/stdout")).unwrap());
    let runs = a.num("runs", 20);
    let first = a.num("first", 0);
    let set = a.flag("set");
    let ty = if set { "set" } else { "map" };
    let zst = K::NAME == "zst";
    emit(&mut out, &header::<K>(a, json!({"mode":"matrix"})));
    let nops = if set { 44 } else { 66 };
    for run in first..first + runs {
        let phase = run % MATRIX_PHASES;
        let opi = (run / MATRIX_PHASES) % nops;
        let variant = run / (MATRIX_PHASES * nops); // beyond one full matrix: other hasher / sizes
        let hm = (variant % 3) as u8;
        let big = if variant % 2 == 0 { 28usize } else { 56 };
        let mut w: World<K, V> = World::new(2, 400);
        rebase_live();
        emit(&mut out, &json!({"op":"Reset","run":run,"phase":phase,"opi":opi,"hm":hm}));
        let mut ex = |w: &mut World<K, V>, mut op: Value| {
            if zst {
                zero_vals(&mut op); // zero-sized values carry no value
            }
            if let Some(o) = w.resolve(&op) {
                let ev = w.exec(&o);
                emit(&mut out, &ev);
            }
        };
        let ins = |k: Value, v: u32| if set { json!({"op":"SInsert","s":1,"k":k}) } else { json!({"op":"Insert","s":1,"k":k,"v":v}) };
        let rem = |k: Value| if set { json!({"op":"SRemove","s":1,"k":k}) } else { json!({"op":"Remove","s":1,"k":k}) };
        build_phase(&mut w, &mut ex, phase, set, hm, big);
        // a second collection for the two-slot operations: other hasher state, a few shared keys
        let two_slot = if set { opi >= 30 } else { (50..56).contains(&opi) };
        if two_slot {
            let cap2 = [0usize, 3, 29][(run % 3) as usize];
            ex(&mut w, json!({"op":"New","s":2,"ty":ty,"cap": cap2,"hm":hm,"hs":1}));
            for k in [1u32, 2, 3, 900, 901] {
                let k = if zst { 0 } else { k };
                ex(&mut w, if set { json!({"op":"SInsert","s":2,"k":k}) } else { json!({"op":"Insert","s":2,"k":k,"v":1}) });
            }
        }
        // ---- the operation ----
        let old0 = json!({"cls":"old","i":0});
        let old1 = json!({"cls":"old","i": run % 7});
        let main0 = json!({"cls":"main","i": run % 5});
        let absent = json!({"cls":"absent","i": run % 9});
        let ops: Vec<Value> = if set {
            match opi {
                0 => vec![json!({"op":"SInsert","s":1,"k":absent})],
                1 => vec![json!({"op":"SInsert","s":1,"k":old1})],
                2 => vec![json!({"op":"SInsert","s":1,"k":main0})],
                3 => vec![json!({"op":"SReplace","s":1,"k":old0})],
                4 => vec![json!({"op":"SReplace","s":1,"k":absent})],
                5 => vec![json!({"op":"SGetOrInsert","s":1,"k":old1})],
                6 => vec![json!({"op":"SGetOrInsertOwned","s":1,"k":absent})],
                7 => vec![json!({"op":"SGetOrInsertWith","s":1,"k":absent})],
                8 => vec![json!({"op":"STake","s":1,"k":old0})],
                9 => vec![json!({"op":"STake","s":1,"k":main0})],
                10 => vec![json!({"op":"SRemove","s":1,"k":old1})],
                11 => vec![json!({"op":"SRemove","s":1,"k":absent})],
                12 => vec![json!({"op":"SContains","s":1,"k":old1}), json!({"op":"SContains","s":1,"k":main0}), json!({"op":"SGet","s":1,"k":absent})],
                13 => vec![json!({"op":"Retain","s":1,"pred":{"all":1}})],
                14 => vec![json!({"op":"Retain","s":1,"pred":{"none":1}})],
                15 => vec![json!({"op":"Retain","s":1,"pred":{"table":"main"}})],
                16 => vec![json!({"op":"Retain","s":1,"pred":{"table":"old"}})],
                17 => vec![json!({"op":"DrainFilter","s":1,"pred":{"table":"old"},"end":"exhaust"})],
                18 => vec![json!({"op":"DrainFilter","s":1,"pred":{"table":"main"},"end":"drop","take":1})],
                19 => vec![json!({"op":"DrainFilter","s":1,"pred":{"all":1},"end":"forget","take":1})],
                20 => vec![json!({"op":"DrainFilter","s":1,"pred":{"all":1},"end":"drop","take":0})],
                21 => vec![json!({"op":"Drain","s":1,"end":"exhaust","extra":2})],
                22 => vec![json!({"op":"Drain","s":1,"end":"drop","take":1,"extra":2})],
                23 => vec![json!({"op":"Drain","s":1,"end":"forget","take":2,"extra":1})],
                24 => vec![json!({"op":"IntoIter","s":1,"extra":2})],
                25 => vec![json!({"op":"IntoIter","s":1,"extra":2,"take":1})],
                26 => vec![json!({"op":"Iter","s":1,"kind":"iter","extra":2})],
                27 => vec![json!({"op":"Clear","s":1})],
                28 => vec![json!({"op":"Reserve","s":1,"n":{"rel":"free","d":1}})],
                29 => vec![json!({"op":"ShrinkToFit","s":1})],
                30 => vec![json!({"op":"Clone","s":1,"d":2}), json!({"op":"Eq","s":1,"d":2}), json!({"op":"Eq","s":2,"d":1})],
                31 => vec![json!({"op":"CloneFrom","s":1,"d":2}), json!({"op":"Eq","s":2,"d":1})],
                32 => vec![json!({"op":"CloneFrom","s":2,"d":1}), json!({"op":"Eq","s":1,"d":2})],
                33 => vec![json!({"op":"Eq","s":1,"d":2}), json!({"op":"Eq","s":1,"d":1})],
                _ => {
                    let kinds = ["union", "intersection", "difference", "symmetric_difference", "bitor", "bitand", "bitxor", "sub", "is_subset", "is_superset"];
                    let k = kinds[((opi - 34) % 10) as usize];
                    vec![json!({"op":"SAlg","s":1,"d":2,"hm":hm,"kind":k}), json!({"op":"SAlg","s":2,"d":1,"hm":hm,"kind":k})]
                }
            }
        } else {
            match opi {
                0 => vec![json!({"op":"Insert","s":1,"k":absent,"v":7})],
                1 => vec![json!({"op":"Insert","s":1,"k":old1,"v":7})],
                2 => vec![json!({"op":"Insert","s":1,"k":main0,"v":7})],
                3 => vec![json!({"op":"Insert","s":1,"k":old0,"v":8})],
                4 => vec![json!({"op":"Get","s":1,"k":old1,"kind":"get"}), json!({"op":"Get","s":1,"k":main0,"kind":"get_key_value"}), json!({"op":"Get","s":1,"k":absent,"kind":"contains_key"})],
                5 => vec![json!({"op":"Get","s":1,"k":old0,"kind":"get_mut","w": if zst { 0 } else { 55 }}), json!({"op":"Get","s":1,"k":old0,"kind":"index"})],
                6 => vec![json!({"op":"Get","s":1,"k":old1,"kind":"raw_key"}), json!({"op":"Get","s":1,"k":main0,"kind":"get_mut","w": if zst { 0 } else { 56 }})],
                7 => vec![json!({"op":"Remove","s":1,"k":old0})],
                8 => vec![json!({"op":"Remove","s":1,"k":old1})],
                9 => vec![json!({"op":"Remove","s":1,"k":main0})],
                10 => vec![json!({"op":"RemoveEntry","s":1,"k":old1})],
                11 => vec![json!({"op":"Remove","s":1,"k":absent})],
                12 => vec![json!({"op":"Entry","s":1,"k":old0,"chain":[{"m":"match"},{"m":"o_remove"}]})],
                13 => vec![json!({"op":"Entry","s":1,"k":old1,"chain":[{"m":"match"},{"m":"o_remove_entry"}]})],
                14 => vec![json!({"op":"Entry","s":1,"k":old0,"chain":[{"m":"match"},{"m":"o_replace_entry_with"},{"m":"match"},{"m":"v_insert","v":4},{"m":"write","w":5}]})],
                15 => vec![json!({"op":"Entry","s":1,"k":old1,"chain":[{"m":"match"},{"m":"o_replace_entry_with","some":6},{"m":"match"},{"m":"o_get"}]})],
                16 => vec![json!({"op":"Entry","s":1,"k":old0,"chain":[{"m":"and_modify","add":2},{"m":"or_insert","v":1},{"m":"write","w":9}]})],
                17 => vec![json!({"op":"Entry","s":1,"k":absent,"chain":[{"m":"or_insert_with","v":3},{"m":"write","w":4}]})],
                18 => vec![json!({"op":"Entry","s":1,"k":old1,"chain":[{"m":"match"},{"m":"o_insert","v":3},{"m":"o_get"},{"m":"o_get_mut","w":4},{"m":"o_into_mut"},{"m":"write","w":6}]})],
                19 => vec![json!({"op":"Entry","s":1,"k":absent,"chain":[{"m":"insert","v":3},{"m":"o_get"},{"m":"o_insert","v":4},{"m":"o_key"}]})],
                20 => vec![json!({"op":"Entry","s":1,"k":old0,"chain":[{"m":"insert","v":3},{"m":"o_get"},{"m":"o_remove"}]})],
                21 => vec![json!({"op":"Entry","s":1,"k":absent,"chain":[{"m":"or_default"},{"m":"write","w":2}]})],
                22 => vec![json!({"op":"Entry","s":1,"k":old1,"chain":[{"m":"and_replace_entry_with"},{"m":"or_insert_with_key","v":3},{"m":"read"}]})],
                23 => vec![json!({"op":"Entry","s":1,"k":main0,"chain":[{"m":"match"},{"m":"o_replace_entry","v":3}]})],
                24 => vec![json!({"op":"RawEntry","s":1,"k":old0,"via":"hash","chain":[{"m":"match"},{"m":"o_replace_entry_with","some":3},{"m":"match"},{"m":"o_remove"}]})],
                25 => vec![json!({"op":"RawEntry","s":1,"k":old1,"via":"key","chain":[{"m":"match"},{"m":"o_replace_entry_with"},{"m":"match"},{"m":"v_insert","v":3},{"m":"read"}]})],
                26 => vec![json!({"op":"RawEntry","s":1,"k":absent,"via":"key","chain":[{"m":"or_insert_with","v":1},{"m":"read"}]})],
                27 => vec![json!({"op":"RawEntry","s":1,"k":absent,"via":"hash","chain":[{"m":"match"},{"m":"v_insert_hashed","v":1},{"m":"read"}]})],
                28 => vec![json!({"op":"RawEntry","s":1,"k":old0,"via":"key","chain":[{"m":"insert","v":2},{"m":"o_get"},{"m":"o_insert","v":5},{"m":"o_into_mut"}]})],
                29 => vec![json!({"op":"RawEntry","s":1,"k":old1,"via":"key","chain":[{"m":"and_modify","add":1},{"m":"or_insert","v":1}]})],
                30 => vec![json!({"op":"Retain","s":1,"pred":{"all":1}})],
                31 => vec![json!({"op":"Retain","s":1,"pred":{"none":1}})],
                32 => vec![json!({"op":"Retain","s":1,"pred":{"table":"main"}})],
                33 => vec![json!({"op":"Retain","s":1,"pred":{"table":"old"}})],
                34 => vec![json!({"op":"Retain","s":1,"pred":{"all_but":{"cls":"old","i":0}},"add":1})],
                35 => vec![json!({"op":"DrainFilter","s":1,"pred":{"table":"old"},"end":"exhaust"})],
                36 => vec![json!({"op":"DrainFilter","s":1,"pred":{"table":"main"},"end":"drop","take":1})],
                37 => vec![json!({"op":"DrainFilter","s":1,"pred":{"all":1},"end":"forget","take":1})],
                38 => vec![json!({"op":"DrainFilter","s":1,"pred":{"all":1},"end":"drop","take":0})],
                39 => vec![json!({"op":"DrainFilter","s":1,"pred":{"none":1},"end":"exhaust"})],
                40 => vec![json!({"op":"Drain","s":1,"end":"exhaust","extra":2})],
                41 => vec![json!({"op":"Drain","s":1,"end":"drop","take":1,"extra":2})],
                42 => vec![json!({"op":"Drain","s":1,"end":"forget","take":2,"extra":1})],
                43 => vec![json!({"op":"Drain","s":1,"end":"drop","take":0,"extra":1})],
                44 => vec![json!({"op":"IntoIter","s":1,"extra":2})],
                45 => vec![json!({"op":"IntoIter","s":1,"extra":2,"take":1})],
                46 => vec![json!({"op":"Iter","s":1,"kind":"iter","extra":2}), json!({"op":"Iter","s":1,"kind":"keys","extra":1}), json!({"op":"Iter","s":1,"kind":"values","extra":1})],
                47 => vec![json!({"op":"Iter","s":1,"kind":"iter_mut","extra":1,"add":1}), json!({"op":"Iter","s":1,"kind":"values_mut","extra":1,"add":2})],
                48 => vec![json!({"op":"Iter","s":1,"kind":"ref_into_iter","extra":1}), json!({"op":"Iter","s":1,"kind":"mut_into_iter","extra":1,"add":1}), json!({"op":"Iter","s":1,"kind":"zip"})],
                49 => vec![json!({"op":"Clear","s":1})],
                50 => vec![json!({"op":"Clone","s":1,"d":2}), json!({"op":"Eq","s":1,"d":2}), json!({"op":"Eq","s":2,"d":1})],
                51 => vec![json!({"op":"CloneFrom","s":1,"d":2}), json!({"op":"Eq","s":2,"d":1})],
                52 => vec![json!({"op":"CloneFrom","s":2,"d":1}), json!({"op":"Eq","s":1,"d":2})],
                53 => vec![json!({"op":"Eq","s":1,"d":2}), json!({"op":"Eq","s":1,"d":1})],
                54 => vec![json!({"op":"Clone","s":1,"d":2}), json!({"op":"Insert","s":2,"k":old0,"v":9}), json!({"op":"Remove","s":1,"k":old1}), json!({"op":"Eq","s":1,"d":2})],
                55 => vec![json!({"op":"CloneFrom","s":1,"d":2}), json!({"op":"Get","s":2,"k":{"cls":"old","i":0},"kind":"get"}), json!({"op":"Debug","s":2})],
                56 => vec![json!({"op":"Debug","s":1})],
                57 => vec![json!({"op":"Reserve","s":1,"n":0})],
                58 => vec![json!({"op":"Reserve","s":1,"n":{"rel":"free","d":0}})],
                59 => vec![json!({"op":"Reserve","s":1,"n":{"rel":"free","d":1}})],
                60 => vec![json!({"op":"TryReserve","s":1,"n":{"rel":"cap","d":1}})],
                61 => vec![json!({"op":"ShrinkToFit","s":1})],
                62 => vec![json!({"op":"ShrinkTo","s":1,"n":{"rel":"len","d":0}})],
                63 => vec![json!({"op":"ShrinkTo","s":1,"n":0})],
                64 => vec![json!({"op":"Extend","s":1,"items":[[7001, 1], [7002, 2], [7003, 3]],"hint":3})],
                _ => vec![json!({"op":"Probe","s":1})],
            }
        };
        for o in ops {
            ex(&mut w, o);
        }
        // ---- the same observations after every pair ----
        for s in 1..=2usize {
            if !w.alive(s) {
                continue;
            }
            ex(&mut w, json!({"op":"Iter","s":s,"kind":"iter","extra":1}));
            if set {
                ex(&mut w, json!({"op":"SContains","s":s,"k":{"cls":"old","i":0}}));
                ex(&mut w, json!({"op":"SContains","s":s,"k":{"cls":"main","i":0}}));
            } else {
                ex(&mut w, json!({"op":"Get","s":s,"k":{"cls":"old","i":0},"kind":"get"}));
                ex(&mut w, json!({"op":"Get","s":s,"k":{"cls":"main","i":0},"kind":"get"}));
            }
        }
        if w.alive(1) && !zst {
            ex(&mut w, json!({"op":"Probe","s":1}));
            ex(&mut w, ins(json!({"cls":"absent","i":3}), 1));
            ex(&mut w, json!({"op":"Iter","s":1,"kind":"iter","extra":1}));
        }
        for s in 1..w.slots.len() {
            if w.alive(s) {
                ex(&mut w, json!({"op":"DropMap","s":s}));
            }
        }
        let live = live_ids();
        emit(&mut out, &json!({"op":"EndRun","live_ids": live, "live_allocs": live_tables()}));
    }
}

fn main() {
    install_panic_hook();
    let (mode, a) = Args::parse();
    let elem = a.get("elem", "plain");
    macro_rules! dispatch {
        ($f:ident) => {
            match elem.as_str() {
                "plain" => $f::<PK, PV>(&a),
                "fat" => $f::<FK, FV>(&a),
                "heap" => $f::<HK, HV>(&a),
                "zst" => $f::<ZK, ZV>(&a),
                _ => panic!("bad --elem"),
            }
        };
    }
    match mode.as_str() {
        "random" => dispatch!(run_random),
        "run" => dispatch!(run_script),
        "faults" => dispatch!(run_faults),
        "meta" => dispatch!(run_meta),
        "tomb" => dispatch!(run_tomb),
        "matrix" => dispatch!(run_matrix),
        "big" => dispatch!(run_big),
        _ => {
            eprintln!("usage: drive random|run ...");
            std::process::exit(2);
        }
    }
}

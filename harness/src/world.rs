//! The instrumented world: slots holding real griddle maps/sets, `exec` runs one operation
//! (a JSON object) on the real code and returns the event (operation + everything observed).

use crate::elem::*;
use griddle::{HashMap, HashSet};
use serde_json::{json, Map as JMap, Value};
use std::panic::{catch_unwind, AssertUnwindSafe};
pub use serde_json::Value as J;
use std::sync::atomic::Ordering::Relaxed;

pub type M<K, V> = HashMap<K, V, HB>;
pub type S<K> = HashSet<K, HB>;

pub enum Slot<K, V> {
    Map(M<K, V>),
    Set(S<K>),
}

pub struct World<K: KeyT, V: ValT> {
    pub slots: Vec<Option<Slot<K, V>>>,
    /// log full contents in snapshots when the total number of elements is at most this
    pub content_limit: usize,
    pub gw: usize,
    /// replaying a prefix: execute but do not snapshot / build events
    pub silent: bool,
    /// rayon in use: the live-table counter is not reliable (worker threads allocate/free asynchronously)
    pub nolive: bool,
    pub probe_ctr: usize,
    pub ext_ctr: usize,
    pub zl0: (i64, i64),
}

#[derive(Default, Clone, Copy)]
pub struct Cost {
    pub h: u64,
    pub eq: u64,
    pub cl: u64,
    pub fnc: u64,
    pub al: u64,
    pub de: u64,
}

pub struct Meta {
    pub panic: Option<String>,
    pub cost: Cost,
    pub led: LedgerLog,
}

thread_local! {
    static LAST_PANIC: std::cell::RefCell<String> = std::cell::RefCell::new(String::new());
}

pub fn install_panic_hook() {
    std::panic::set_hook(Box::new(|info| {
        let _q = Quiet::new();
        let msg = if let Some(s) = info.payload().downcast_ref::<&str>() {
            s.to_string()
        } else if let Some(s) = info.payload().downcast_ref::<String>() {
            s.clone()
        } else {
            "?".to_string()
        };
        let loc = info
            .location()
            .map(|l| format!("{}:{}", l.file(), l.line()))
            .unwrap_or_default();
        LAST_PANIC.with(|p| *p.borrow_mut() = format!("{} @ {}", msg, loc));
    }));
}

/// Runs `f` inside a counting window, catching panics.
pub fn measure<T>(f: impl FnOnce() -> T) -> (Option<T>, Meta) {
    // objects the harness released between two calls (returned values, unused arguments): a double
    // drop or a use of a dead object there is the map's doing (it handed out the same object twice),
    // so it is carried into this event's ledger rather than discarded
    let pre = take_log();
    let c0 = counts();
    let a0 = ALLOCS.load(Relaxed);
    let d0 = DEALLOCS.load(Relaxed);
    let res = {
        let _w = Window::open();
        catch_unwind(AssertUnwindSafe(f))
    };
    let c1 = counts();
    let a1 = ALLOCS.load(Relaxed);
    let d1 = DEALLOCS.load(Relaxed);
    disarm();
    let mut led = take_log();
    led.double.splice(0..0, pre.double);
    led.dead_use.splice(0..0, pre.dead_use);
    let (res, panic) = match res {
        Ok(v) => (Some(v), None),
        Err(_) => (None, Some(LAST_PANIC.with(|p| p.borrow().clone()))),
    };
    let meta = Meta {
        panic,
        cost: Cost {
            h: c1[0] - c0[0],
            eq: c1[1] - c0[1],
            cl: c1[2] - c0[2],
            fnc: c1[3] - c0[3],
            al: a1 - a0,
            de: d1 - d0,
        },
        led,
    };
    (res, meta)
}

/// Classifies a panic message: documented panics get a stable class name.
pub fn panic_class(msg: &str) -> &'static str {
    if msg.starts_with("FUSE") {
        "fuse"
    } else if msg.contains("capacity overflow") {
        "capacity_overflow"
    } else if msg.contains("no entry found for key") {
        "index_missing"
    } else {
        "other"
    }
}

pub fn usize_arg(op: &Value, name: &str) -> usize {
    let v = &op[name];
    if let Some(n) = v.as_u64() {
        return n as usize;
    }
    if let Some(d) = v.get("max_minus").and_then(|x| x.as_u64()) {
        return usize::MAX - d as usize;
    }
    if let Some(d) = v.get("imax_minus").and_then(|x| x.as_u64()) {
        return (isize::MAX as usize) - d as usize;
    }
    if let Some(d) = v.get("imax_plus").and_then(|x| x.as_u64()) {
        return (isize::MAX as usize) + d as usize;
    }
    if let Some(d) = v.get("eighth_minus").and_then(|x| x.as_u64()) {
        return (usize::MAX / 8) - d as usize;
    }
    if let Some(d) = v.get("eighth_plus").and_then(|x| x.as_u64()) {
        return (usize::MAX / 8) + d as usize;
    }
    panic!("bad usize arg {name}: {v}");
}

pub fn u(op: &Value, name: &str) -> u32 {
    op[name].as_u64().unwrap_or_else(|| panic!("missing {name} in {op}")) as u32
}
pub fn ou(op: &Value, name: &str) -> Option<u32> {
    op.get(name).and_then(|x| x.as_u64()).map(|x| x as u32)
}

pub fn kv_json<K: KeyT, V: ValT>(k: &K, v: &V) -> Value {
    json!([k.k(), v.v(), k.id(), v.id()])
}
pub fn some_kv<K: KeyT, V: ValT>(k: &K, v: &V) -> Value {
    json!({"t":"some","k":k.k(),"kid":k.id(),"v":v.v(),"vid":v.id()})
}
pub fn some_v<V: ValT>(v: &V) -> Value {
    json!({"t":"some","v":v.v(),"vid":v.id()})
}
pub fn some_k<K: KeyT>(k: &K) -> Value {
    json!({"t":"some","k":k.k(),"kid":k.id()})
}
pub fn none() -> Value {
    json!({"t":"none"})
}

/// A predicate over (key, value) given as JSON:
///  {"keys":[..]} true iff key listed;  {"mod":m,"rem":r} true iff k % m == r;
///  {"vmod":m,"rem":r} on values; {"all":1}; {"none":1}
pub fn pred_eval(p: &Value, k: u32, v: u32) -> bool {
    if let Some(ks) = p.get("keys").and_then(|x| x.as_array()) {
        return ks.iter().any(|x| x.as_u64() == Some(k as u64));
    }
    if let Some(m) = p.get("mod").and_then(|x| x.as_u64()) {
        return (k as u64) % m == p["rem"].as_u64().unwrap_or(0);
    }
    if let Some(m) = p.get("vmod").and_then(|x| x.as_u64()) {
        return (v as u64) % m == p["rem"].as_u64().unwrap_or(0);
    }
    if p.get("all").is_some() {
        return true;
    }
    false
}

impl<K: KeyT, V: ValT> World<K, V> {
    pub fn new(nslots: usize, content_limit: usize) -> Self {
        let mut slots = Vec::new();
        for _ in 0..=nslots {
            slots.push(None);
        }
        World {
            slots,
            content_limit,
            gw: if cfg!(miri) { 8 } else { 16 },
            silent: false,
            nolive: cfg!(miri),
            probe_ctr: 0,
            ext_ctr: 0,
            zl0: (0, 0),
        }
    }

    pub fn map(&mut self, s: usize) -> &mut M<K, V> {
        match self.slots[s].as_mut() {
            Some(Slot::Map(m)) => m,
            _ => panic!("slot {s} is not a map"),
        }
    }
    pub fn map_ref(&self, s: usize) -> &M<K, V> {
        match self.slots[s].as_ref() {
            Some(Slot::Map(m)) => m,
            _ => panic!("slot {s} is not a map"),
        }
    }
    pub fn set(&mut self, s: usize) -> &mut S<K> {
        match self.slots[s].as_mut() {
            Some(Slot::Set(m)) => m,
            _ => panic!("slot {s} is not a set"),
        }
    }
    pub fn set_ref(&self, s: usize) -> &S<K> {
        match self.slots[s].as_ref() {
            Some(Slot::Set(m)) => m,
            _ => panic!("slot {s} is not a set"),
        }
    }
    pub fn is_map(&self, s: usize) -> bool {
        matches!(self.slots[s], Some(Slot::Map(_)))
    }
    pub fn alive(&self, s: usize) -> bool {
        self.slots[s].is_some()
    }

    pub fn vstate(&self, s: usize) -> Option<griddle::VerifState> {
        match self.slots[s].as_ref() {
            Some(Slot::Map(m)) => Some(m.verif_state()),
            Some(Slot::Set(m)) => Some(m.verif_state()),
            None => None,
        }
    }

    /// keys currently in (main, old) of slot s
    pub fn keys_by_table(&self, s: usize) -> (Vec<u32>, Vec<u32>) {
        let mut a = Vec::new();
        let mut b = Vec::new();
        match self.slots[s].as_ref() {
            Some(Slot::Map(m)) => m.verif_for_each(|k, _, im| if im { a.push(k.k()) } else { b.push(k.k()) }),
            Some(Slot::Set(m)) => m.verif_for_each(|k, im| if im { a.push(k.k()) } else { b.push(k.k()) }),
            None => {}
        }
        (a, b)
    }

    /// keys the cached old-table iterator would yield, in its order (empty if it is inconsistent)
    pub fn cursor_keys(&self, s: usize) -> Vec<u32> {
        let mut v = Vec::new();
        let st = match self.vstate(s) {
            Some(st) => st,
            None => return v,
        };
        if !st.split || st.cursor_len != st.old_len {
            return v;
        }
        match self.slots[s].as_ref() {
            Some(Slot::Map(m)) => m.verif_cursor_for_each(|k, _| v.push(k.k())),
            Some(Slot::Set(m)) => m.verif_cursor_for_each(|k| v.push(k.k())),
            None => {}
        }
        v
    }

    pub fn total_len(&self) -> usize {
        (1..self.slots.len())
            .map(|s| match self.slots[s].as_ref() {
                Some(Slot::Map(m)) => m.len(),
                Some(Slot::Set(m)) => m.len(),
                None => 0,
            })
            .sum()
    }

    /// Snapshot of every live slot: hook state, API-visible len/capacity, contents per table.
    pub fn snapshot(&self) -> Value {
        let full = self.total_len() <= self.content_limit;
        let mut out = Vec::new();
        for s in 1..self.slots.len() {
            let (st, len, cap, empty, ty, hb) = match self.slots[s].as_ref() {
                Some(Slot::Map(m)) => (m.verif_state(), m.len(), m.capacity(), m.is_empty(), "map", m.hasher().clone()),
                Some(Slot::Set(m)) => (m.verif_state(), m.len(), m.capacity(), m.is_empty(), "set", m.hasher().clone()),
                None => continue,
            };
            let mut o = JMap::new();
            o.insert("s".into(), json!(s));
            o.insert("ty".into(), json!(ty));
            o.insert("len".into(), json!(len));
            o.insert("cap".into(), json!(cap));
            o.insert("empty".into(), json!(empty as u8));
            o.insert("hm".into(), json!(hb.mode));
            o.insert("hs".into(), json!(hb.seed));
            o.insert("mI".into(), json!(st.main_len));
            o.insert("mC".into(), json!(st.main_cap));
            o.insert("mB".into(), json!(st.main_buckets));
            o.insert("sp".into(), json!(st.split as u8));
            o.insert("oI".into(), json!(st.old_len));
            o.insert("oB".into(), json!(st.old_buckets));
            o.insert("cI".into(), json!(st.cursor_len));
            o.insert("full".into(), json!(full as u8));
            if full {
                let mut main = Vec::new();
                let mut old = Vec::new();
                let mut cur = Vec::new();
                match self.slots[s].as_ref() {
                    Some(Slot::Map(m)) => {
                        m.verif_for_each(|k, v, im| {
                            let e = kv_json(k, v);
                            if im {
                                main.push(e)
                            } else {
                                old.push(e)
                            }
                        });
                        if st.split && st.cursor_len == st.old_len {
                            m.verif_cursor_for_each(|k, _| cur.push(json!(k.k())));
                        }
                    }
                    Some(Slot::Set(m)) => {
                        m.verif_for_each(|k, im| {
                            let e = json!([k.k(), 0, k.id(), 0]);
                            if im {
                                main.push(e)
                            } else {
                                old.push(e)
                            }
                        });
                        if st.split && st.cursor_len == st.old_len {
                            m.verif_cursor_for_each(|k| cur.push(json!(k.k())));
                        }
                    }
                    None => {}
                }
                o.insert("main".into(), Value::Array(main));
                o.insert("old".into(), Value::Array(old));
                o.insert("cur".into(), Value::Array(cur));
            }
            out.push(Value::Object(o));
        }
        Value::Array(out)
    }

    pub fn finish(&self, op: &Value, m: &Meta, res: Value, extra: Vec<(&str, Value)>) -> Value {
        if self.silent {
            return Value::Null;
        }
        let mut e = op.as_object().cloned().unwrap_or_default();
        if let Some(f) = op.get("fault") {
            let mut f = f.clone();
            f["fired"] = json!(FUSE_FIRED.load(Relaxed));
            f["victim"] = json!(FUSE_VICTIM.load(Relaxed));
            e.insert("fault".into(), f);
        }
        let res = match &m.panic {
            None => res,
            Some(msg) => json!({"t":"panic","class":panic_class(msg),"msg":msg}),
        };
        e.insert("res".into(), res);
        // "big": 1 when a usize argument is given relative to usize::MAX / isize::MAX
        let big = ["n", "cap", "hint"].iter().any(|f| op.get(*f).map_or(false, |v| v.is_object()));
        e.insert("big".into(), json!(big as u8));
        for (k, v) in extra {
            e.insert(k.into(), v);
        }
        if self.nolive {
            e.insert("par".into(), json!(1));
        }
        e.insert("st".into(), self.snapshot());
        if K::NAME == "zst" {
            // live zero-sized keys / values (creations - drops - legitimately forgotten) before this call
            e.insert("zl0".into(), json!([self.zl0.0, self.zl0.1]));
        }
        e.insert(
            "cost".into(),
            json!({"h":m.cost.h,"eq":m.cost.eq,"cl":m.cost.cl,"fn":m.cost.fnc,"al":m.cost.al,"de":m.cost.de,
                   "live": live_tables()}),
        );
        e.insert(
            "led".into(),
            json!({"new":m.led.created,"drop":m.led.drops,"dd":m.led.double,"dead":m.led.dead_use}),
        );
        Value::Object(e)
    }
}

impl<K: KeyT, V: ValT> World<K, V> {
    /// Resolves state-relative ("symbolic") fields of an operation against the observed state:
    ///   "k": {"cls":"old"|"main"|"absent","i":n}      -> a concrete key of that class
    ///   "pred": {"table":"main"|"old","keep":n?}      -> {"keys":[...]} (first n of them if given)
    ///   "n": {"rel":"free"|"len"|"cap"|"need"|"mcap","d":int} -> a number
    /// Returns None when the class is empty (the operation is skipped).
    pub fn resolve(&self, op: &Value) -> Option<Value> {
        let mut o = op.clone();
        let s = op.get("s").and_then(|x| x.as_u64()).unwrap_or(0) as usize;
        if s == 0 || s >= self.slots.len() || !self.alive(s) {
            return Some(o);
        }
        let (mut a, mut b) = self.keys_by_table(s);
        a.sort();
        b.sort();
        let st = self.vstate(s).unwrap();
        if let Some(kc) = op.get("k").and_then(|x| x.as_object()) {
            let i = kc.get("i").and_then(|x| x.as_u64()).unwrap_or(0) as usize;
            let k = match kc.get("cls").and_then(|x| x.as_str()).unwrap_or("") {
                "old" => {
                    if b.is_empty() {
                        return None;
                    }
                    b[i % b.len()]
                }
                "main" => {
                    if a.is_empty() {
                        return None;
                    }
                    a[i % a.len()]
                }
                _ => {
                    let mut k = 1000 + i as u32;
                    while a.contains(&k) || b.contains(&k) {
                        k += 1;
                    }
                    k
                }
            };
            let k = if K::NAME == "zst" { 0 } else { k };
            o["k"] = json!(k);
        }
        if let Some(p) = op.get("pred").and_then(|x| x.as_object()) {
            if let Some(ab) = p.get("all_but").and_then(|x| x.as_object()) {
                // keep everything except the i-th key of one table
                let i = ab.get("i").and_then(|x| x.as_u64()).unwrap_or(0) as usize;
                let from = if ab.get("cls").and_then(|x| x.as_str()) == Some("old") { &b } else { &a };
                if from.is_empty() {
                    return None;
                }
                let victim = from[i % from.len()];
                let ks: Vec<u32> = a.iter().chain(b.iter()).copied().filter(|&k| k != victim).collect();
                o["pred"] = json!({"keys": ks});
            }
            if let Some(t) = p.get("table").and_then(|x| x.as_str()) {
                let mut ks = if t == "main" { a.clone() } else { b.clone() };
                if let Some(n) = p.get("keep").and_then(|x| x.as_u64()) {
                    ks.truncate(n as usize);
                }
                o["pred"] = json!({"keys": ks});
            }
        }
        if let Some(nr) = op.get("n").and_then(|x| x.as_object()) {
            if let Some(rel) = nr.get("rel").and_then(|x| x.as_str()) {
                let d = nr.get("d").and_then(|x| x.as_i64()).unwrap_or(0);
                let len = st.main_len + st.old_len;
                let base = match rel {
                    "free" => st.main_cap as i64 - st.main_len as i64 - st.old_len as i64,
                    "len" => len as i64,
                    "cap" => st.main_cap as i64,
                    "need" => (len + (st.old_len + st.r - 1) / st.r) as i64,
                    _ => 0,
                };
                o["n"] = json!((base + d).max(0));
            }
        }
        Some(o)
    }
}

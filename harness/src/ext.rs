//! rayon, serde and Debug operations.

use crate::elem::*;
use crate::world::*;
use rayon::prelude::*;
use serde::ser::{self, Serialize};
use serde_json::{json, Value};
use std::sync::Mutex;

// ---------------------------------------------------------------------------------------------
// a token-recording serializer: just enough for maps / sequences of u32-like things
// ---------------------------------------------------------------------------------------------
#[derive(Debug)]
pub struct SerErr(String);
impl std::fmt::Display for SerErr {
    fn fmt(&self, f: &mut std::fmt::Formatter<'_>) -> std::fmt::Result {
        write!(f, "{}", self.0)
    }
}
impl std::error::Error for SerErr {}
impl ser::Error for SerErr {
    fn custom<T: std::fmt::Display>(m: T) -> Self {
        SerErr(m.to_string())
    }
}
pub struct TokSer<'a> {
    pub toks: &'a mut Vec<Value>,
}
macro_rules! unsupported {
    ($($f:ident($($t:ty),*);)*) => { $(fn $f(self, $(_: $t),*) -> Result<Self::Ok, SerErr> { Err(SerErr("unsupported".into())) })* };
}
impl<'a> ser::Serializer for &'a mut TokSer<'_> {
    type Ok = ();
    type Error = SerErr;
    type SerializeSeq = Self;
    type SerializeTuple = ser::Impossible<(), SerErr>;
    type SerializeTupleStruct = ser::Impossible<(), SerErr>;
    type SerializeTupleVariant = ser::Impossible<(), SerErr>;
    type SerializeMap = Self;
    type SerializeStruct = ser::Impossible<(), SerErr>;
    type SerializeStructVariant = ser::Impossible<(), SerErr>;
    fn serialize_u32(self, v: u32) -> Result<(), SerErr> {
        self.toks.push(json!(["u32", v]));
        Ok(())
    }
    fn serialize_unit(self) -> Result<(), SerErr> {
        self.toks.push(json!(["unit", 0]));
        Ok(())
    }
    fn serialize_seq(self, len: Option<usize>) -> Result<Self, SerErr> {
        self.toks.push(json!(["seq", len.map_or(-1, |x| x as i64)]));
        Ok(self)
    }
    fn serialize_map(self, len: Option<usize>) -> Result<Self, SerErr> {
        self.toks.push(json!(["map", len.map_or(-1, |x| x as i64)]));
        Ok(self)
    }
    unsupported! {
        serialize_bool(bool); serialize_i8(i8); serialize_i16(i16); serialize_i32(i32); serialize_i64(i64);
        serialize_u8(u8); serialize_u16(u16); serialize_u64(u64); serialize_f32(f32); serialize_f64(f64);
        serialize_char(char); serialize_str(&str); serialize_bytes(&[u8]); serialize_none();
        serialize_unit_struct(&'static str); serialize_unit_variant(&'static str, u32, &'static str);
    }
    fn serialize_some<T: ?Sized + Serialize>(self, _: &T) -> Result<(), SerErr> {
        Err(SerErr("unsupported".into()))
    }
    fn serialize_newtype_struct<T: ?Sized + Serialize>(self, _: &'static str, _: &T) -> Result<(), SerErr> {
        Err(SerErr("unsupported".into()))
    }
    fn serialize_newtype_variant<T: ?Sized + Serialize>(self, _: &'static str, _: u32, _: &'static str, _: &T) -> Result<(), SerErr> {
        Err(SerErr("unsupported".into()))
    }
    fn serialize_tuple(self, _: usize) -> Result<Self::SerializeTuple, SerErr> {
        Err(SerErr("unsupported".into()))
    }
    fn serialize_tuple_struct(self, _: &'static str, _: usize) -> Result<Self::SerializeTupleStruct, SerErr> {
        Err(SerErr("unsupported".into()))
    }
    fn serialize_tuple_variant(self, _: &'static str, _: u32, _: &'static str, _: usize) -> Result<Self::SerializeTupleVariant, SerErr> {
        Err(SerErr("unsupported".into()))
    }
    fn serialize_struct(self, _: &'static str, _: usize) -> Result<Self::SerializeStruct, SerErr> {
        Err(SerErr("unsupported".into()))
    }
    fn serialize_struct_variant(self, _: &'static str, _: u32, _: &'static str, _: usize) -> Result<Self::SerializeStructVariant, SerErr> {
        Err(SerErr("unsupported".into()))
    }
}
impl<'a> ser::SerializeSeq for &'a mut TokSer<'_> {
    type Ok = ();
    type Error = SerErr;
    fn serialize_element<T: ?Sized + Serialize>(&mut self, v: &T) -> Result<(), SerErr> {
        v.serialize(&mut **self)
    }
    fn end(self) -> Result<(), SerErr> {
        self.toks.push(json!(["end", 0]));
        Ok(())
    }
}
impl<'a> ser::SerializeMap for &'a mut TokSer<'_> {
    type Ok = ();
    type Error = SerErr;
    fn serialize_key<T: ?Sized + Serialize>(&mut self, k: &T) -> Result<(), SerErr> {
        k.serialize(&mut **self)
    }
    fn serialize_value<T: ?Sized + Serialize>(&mut self, v: &T) -> Result<(), SerErr> {
        v.serialize(&mut **self)
    }
    fn end(self) -> Result<(), SerErr> {
        self.toks.push(json!(["end", 0]));
        Ok(())
    }
}

fn pool(n: usize) -> rayon::ThreadPool {
    rayon::ThreadPoolBuilder::new().num_threads(n.max(1)).build().unwrap()
}
fn widx() -> i64 {
    rayon::current_thread_index().map_or(-1, |x| x as i64)
}

impl<K: KeyT, V: ValT> World<K, V> {
    /// re-anchors the live-table counter (rayon's own aligned allocations would pollute it)
    fn reanchor_live(&self) {
        rebase_live();
        let live_now: i64 = (1..self.slots.len())
            .filter(|&s| self.alive(s))
            .map(|s| {
                let st = self.vstate(s).unwrap();
                (st.main_buckets > 1) as i64 + st.split as i64
            })
            .sum();
        LIVE_BASE.fetch_sub(live_now, std::sync::atomic::Ordering::Relaxed);
    }

    pub fn exec_ext(&mut self, op: &Value, name: &str, s: usize) -> Option<Value> {
        match name {
            "Debug" => {
                let (r, meta) = match self.slots[s].as_ref().expect("dead") {
                    Slot::Map(m) => measure(|| format!("{:?}", m)),
                    Slot::Set(m) => measure(|| format!("{:?}", m)),
                };
                // "{1: 5, 3: 7}" or "{1, 3}"
                let mut pairs = Vec::new();
                if let Some(txt) = &r {
                    let inner = txt.trim_start_matches('{').trim_end_matches('}');
                    for part in inner.split(", ").filter(|x| !x.is_empty()) {
                        let mut it = part.split(": ");
                        let k: u32 = it.next().unwrap().trim().parse().unwrap_or(99999);
                        let v: u32 = it.next().map_or(0, |x| x.trim().parse().unwrap_or(99999));
                        pairs.push(json!([k, v]));
                    }
                }
                Some(self.finish(op, &meta, json!({"t":"unit"}), vec![("dbg", Value::Array(pairs))]))
            }
            "Par" => {
                let kind = op["kind"].as_str().unwrap_or("par_iter").to_string();
                let threads = op["threads"].as_u64().unwrap_or(4) as usize;
                let add = ou(op, "add");
                let visits: Mutex<Vec<Value>> = Mutex::new(Vec::new());
                let p = pool(threads);
                let is_map = self.is_map(s);
                let (_, meta) = if is_map {
                    let map = self.map(s);
                    measure(|| {
                        p.install(|| match kind.as_str() {
                            "par_iter" => map.par_iter().for_each(|(k, v)| {
                                let _q = Quiet::new();
                                visits.lock().unwrap().push(json!([k.k(), v.v(), k.id(), v.id(), widx()]));
                            }),
                            "ref_into_par" => (&*map).into_par_iter().for_each(|(k, v)| {
                                let _q = Quiet::new();
                                visits.lock().unwrap().push(json!([k.k(), v.v(), k.id(), v.id(), widx()]));
                            }),
                            "par_keys" => map.par_keys().for_each(|k| {
                                let _q = Quiet::new();
                                visits.lock().unwrap().push(json!([k.k(), 0, k.id(), 0, widx()]));
                            }),
                            "par_values" => map.par_values().for_each(|v| {
                                let _q = Quiet::new();
                                visits.lock().unwrap().push(json!([0, v.v(), 0, v.id(), widx()]));
                            }),
                            "par_iter_mut" => map.par_iter_mut().for_each(|(k, v)| {
                                if let Some(a) = add {
                                    v.set(v.v().wrapping_add(a) % 1000);
                                }
                                let _q = Quiet::new();
                                visits.lock().unwrap().push(json!([k.k(), v.v(), k.id(), v.id(), widx()]));
                            }),
                            "mut_into_par" => (&mut *map).into_par_iter().for_each(|(k, v)| {
                                if let Some(a) = add {
                                    v.set(v.v().wrapping_add(a) % 1000);
                                }
                                let _q = Quiet::new();
                                visits.lock().unwrap().push(json!([k.k(), v.v(), k.id(), v.id(), widx()]));
                            }),
                            "par_values_mut" => map.par_values_mut().for_each(|v| {
                                if let Some(a) = add {
                                    v.set(v.v().wrapping_add(a) % 1000);
                                }
                                let _q = Quiet::new();
                                visits.lock().unwrap().push(json!([0, v.v(), 0, v.id(), widx()]));
                            }),
                            _ => panic!("bad par kind"),
                        })
                    })
                } else {
                    let set = self.set(s);
                    measure(|| {
                        p.install(|| {
                            set.par_iter().for_each(|k| {
                                let _q = Quiet::new();
                                visits.lock().unwrap().push(json!([k.k(), 0, k.id(), 0, widx()]));
                            })
                        })
                    })
                };
                drop(p);
                self.reanchor_live();
                let v = visits.into_inner().unwrap();
                Some(self.finish(op, &meta, json!({"t":"unit"}), vec![("visits", Value::Array(v)), ("par", json!(1))]))
            }
            "ParEq" => {
                let d = u(op, "d") as usize;
                let threads = op["threads"].as_u64().unwrap_or(4) as usize;
                let p = pool(threads);
                let a = self.slots[s].as_ref().expect("dead");
                let b = self.slots[d].as_ref().expect("dead");
                let (r, meta) = measure(|| {
                    p.install(|| match (a, b) {
                        (Slot::Map(a), Slot::Map(b)) => a.par_eq(b),
                        (Slot::Set(a), Slot::Set(b)) => a.par_eq(b),
                        _ => panic!("type mismatch"),
                    })
                });
                drop(p);
                self.reanchor_live();
                let res = r.map(|x| json!({"t":"bool","b":x as u8})).unwrap_or(Value::Null);
                Some(self.finish(op, &meta, res, vec![("par", json!(1))]))
            }
            "ParExtend" | "FromPar" => {
                let items: Vec<(u32, u32)> = op["items"]
                    .as_array()
                    .unwrap()
                    .iter()
                    .map(|x| (x[0].as_u64().unwrap() as u32, x[1].as_u64().unwrap_or(0) as u32))
                    .collect();
                let threads = op["threads"].as_u64().unwrap_or(4) as usize;
                let fresh = name == "FromPar";
                let set = if fresh { op.get("ty").and_then(|x| x.as_str()) == Some("set") } else { !self.is_map(s) };
                let p = pool(threads);
                let mut ids: Vec<Value> = Vec::new();
                if fresh {
                    DEFAULT_HM.store(ou(op, "hm").unwrap_or(0) as usize, std::sync::atomic::Ordering::Relaxed);
                    let old = self.slots[s].take();
                    drop(old);
                }
                let meta = if !set {
                    let objs: Vec<(K, V)> = items.iter().map(|&(k, v)| (K::new(k), V::new(v))).collect();
                    for (k, v) in &objs {
                        ids.push(json!([k.k(), v.v(), k.id(), v.id()]));
                    }
                    if fresh {
                        let (r, meta) = measure(|| p.install(|| objs.into_par_iter().collect::<M<K, V>>()));
                        if let Some(m) = r {
                            self.slots[s] = Some(Slot::Map(m));
                        }
                        meta
                    } else {
                        let map = self.map(s);
                        if op.get("chain").is_some() && objs.len() >= 2 {
                            // an unbalanced split tree: a one-element head chained with the long tail
                            let mut head = objs;
                            let tail = head.split_off(1);
                            measure(|| p.install(|| map.par_extend(head.into_par_iter().chain(tail.into_par_iter())))).1
                        } else {
                            measure(|| p.install(|| map.par_extend(objs))).1
                        }
                    }
                } else {
                    let objs: Vec<K> = items.iter().map(|&(k, _)| K::new(k)).collect();
                    for k in &objs {
                        ids.push(json!([k.k(), 0, k.id(), 0]));
                    }
                    if fresh {
                        let (r, meta) = measure(|| p.install(|| objs.into_par_iter().collect::<S<K>>()));
                        if let Some(m) = r {
                            self.slots[s] = Some(Slot::Set(m));
                        }
                        meta
                    } else {
                        let st = self.set(s);
                        measure(|| p.install(|| st.par_extend(objs))).1
                    }
                };
                drop(p);
                self.reanchor_live();
                Some(self.finish(op, &meta, json!({"t":"unit"}), vec![("objs", Value::Array(ids)), ("par", json!(1))]))
            }
            "SPar" => {
                let d = u(op, "d") as usize;
                let kind = op["kind"].as_str().unwrap_or("par_union").to_string();
                let threads = op["threads"].as_u64().unwrap_or(4) as usize;
                let p = pool(threads);
                let a = match self.slots[s].as_ref() {
                    Some(Slot::Set(x)) => x,
                    _ => panic!("not a set"),
                };
                let b = match self.slots[d].as_ref() {
                    Some(Slot::Set(x)) => x,
                    _ => panic!("not a set"),
                };
                let visits: Mutex<Vec<Value>> = Mutex::new(Vec::new());
                let rec = |k: &K| {
                    let _q = Quiet::new();
                    visits.lock().unwrap().push(json!([k.k(), 0, k.id(), 0, widx()]));
                };
                let (r, meta) = measure(|| {
                    p.install(|| match kind.as_str() {
                        "par_union" => {
                            a.par_union(b).for_each(&rec);
                            None
                        }
                        "par_intersection" => {
                            a.par_intersection(b).for_each(&rec);
                            None
                        }
                        "par_difference" => {
                            a.par_difference(b).for_each(&rec);
                            None
                        }
                        "par_symmetric_difference" => {
                            a.par_symmetric_difference(b).for_each(&rec);
                            None
                        }
                        "par_is_disjoint" => Some(a.par_is_disjoint(b)),
                        "par_is_subset" => Some(a.par_is_subset(b)),
                        "par_is_superset" => Some(a.par_is_superset(b)),
                        _ => panic!("bad spar kind"),
                    })
                });
                drop(p);
                self.reanchor_live();
                let res = match r {
                    Some(Some(b)) => json!({"t":"bool","b":b as u8}),
                    Some(None) => json!({"t":"unit"}),
                    None => Value::Null,
                };
                let v = visits.into_inner().unwrap();
                Some(self.finish(op, &meta, res, vec![("visits", Value::Array(v)), ("par", json!(1))]))
            }
            "SerdeBig" => {
                // a large collection deserialised from a source that reports its exact length (size-hint dependent
                // pre-sizing paths; serde's `cautious` clamp is 4096 elements): n pairs straight into slot d
                let d = u(op, "d") as usize;
                let n = u(op, "n");
                let set = op.get("ty").and_then(|x| x.as_str()) == Some("set");
                DEFAULT_HM.store(ou(op, "hm").unwrap_or(0) as usize, std::sync::atomic::Ordering::Relaxed);
                let old = self.slots[d].take();
                drop(old);
                let meta = if set {
                    let nums: Vec<u32> = (1..=n).collect();
                    let (r, meta) = measure(|| {
                        let de = serde::de::value::SeqDeserializer::<_, serde::de::value::Error>::new(nums.into_iter());
                        <S<K> as serde::Deserialize>::deserialize(de).unwrap()
                    });
                    if let Some(m) = r {
                        self.slots[d] = Some(Slot::Set(m));
                    }
                    meta
                } else {
                    let pairs: Vec<(u32, u32)> = (1..=n).map(|k| (k, k % 10)).collect();
                    let (r, meta) = measure(|| {
                        let de = serde::de::value::MapDeserializer::<_, serde::de::value::Error>::new(pairs.into_iter());
                        <M<K, V> as serde::Deserialize>::deserialize(de).unwrap()
                    });
                    if let Some(m) = r {
                        self.slots[d] = Some(Slot::Map(m));
                    }
                    meta
                };
                let (len, found) = match self.slots[d].as_ref() {
                    Some(Slot::Map(m)) => {
                        let _q = Quiet::new();
                        (m.len(), (1..=n).filter(|&k| m.get(&K::probe(k)).map_or(false, |v| v.v() == if K::NAME == "zst" { 0 } else { k % 10 })).count())
                    }
                    Some(Slot::Set(m)) => {
                        let _q = Quiet::new();
                        (m.len(), (1..=n).filter(|&k| m.contains(&K::probe(k))).count())
                    }
                    None => (0, 0),
                };
                Some(self.finish(op, &meta, json!({"t":"sbig","len":len,"found":found}), vec![("nn", json!(n))]))
            }
            "Serde" => {
                // serialise slot s (token stream), deserialise the tokens into slot d;
                // "inplace": 1 uses HashSet::deserialize_in_place on the existing slot d
                let d = u(op, "d") as usize;
                let inplace = ou(op, "inplace").unwrap_or(0) == 1;
                DEFAULT_HM.store(ou(op, "hm").unwrap_or(0) as usize, std::sync::atomic::Ordering::Relaxed);
                let mut toks: Vec<Value> = Vec::new();
                let mut order: Vec<Value> = Vec::new();
                let src = self.slots[s].as_ref().expect("dead");
                let (_, m1) = measure(|| {
                    let _q = Quiet::new();
                    let mut ts = TokSer { toks: &mut toks };
                    match src {
                        Slot::Map(m) => m.serialize(&mut ts).unwrap(),
                        Slot::Set(m) => m.serialize(&mut ts).unwrap(),
                    }
                });
                match src {
                    Slot::Map(m) => {
                        for (k, v) in m.iter() {
                            order.push(json!([k.k(), v.v()]));
                        }
                    }
                    Slot::Set(m) => {
                        for k in m.iter() {
                            order.push(json!([k.k(), 0]));
                        }
                    }
                }
                // the element payload of the token stream
                let nums: Vec<u32> = toks.iter().filter(|t| t[0] == "u32" || t[0] == "unit").map(|t| t[1].as_u64().unwrap_or(0) as u32).collect();
                let is_map = matches!(src, Slot::Map(_));
                let meta = if is_map {
                    let pairs: Vec<(u32, u32)> = nums.chunks(2).map(|c| (c[0], *c.get(1).unwrap_or(&0))).collect();
                    let old = self.slots[d].take();
                    drop(old);
                    let (r, meta) = measure(|| {
                        let de = serde::de::value::MapDeserializer::<_, serde::de::value::Error>::new(pairs.into_iter());
                        <M<K, V> as serde::Deserialize>::deserialize(de).unwrap()
                    });
                    if let Some(m) = r {
                        self.slots[d] = Some(Slot::Map(m));
                    }
                    meta
                } else if inplace && self.alive(d) && !self.is_map(d) {
                    let dst = self.set(d);
                    measure(|| {
                        let de = serde::de::value::SeqDeserializer::<_, serde::de::value::Error>::new(nums.into_iter());
                        <S<K> as serde::Deserialize>::deserialize_in_place(de, dst).unwrap()
                    })
                    .1
                } else {
                    let old = self.slots[d].take();
                    drop(old);
                    let (r, meta) = measure(|| {
                        let de = serde::de::value::SeqDeserializer::<_, serde::de::value::Error>::new(nums.into_iter());
                        <S<K> as serde::Deserialize>::deserialize(de).unwrap()
                    });
                    if let Some(m) = r {
                        self.slots[d] = Some(Slot::Set(m));
                    }
                    meta
                };
                let _ = m1;
                Some(self.finish(op, &meta, json!({"t":"unit"}), vec![("toks", Value::Array(toks)), ("order", Value::Array(order))]))
            }
            _ => None,
        }
    }
}

//! `exec`: one JSON operation -> one event, executed on the real griddle map/set.

use crate::elem::*;
use crate::world::*;
use griddle::hash_map::{Entry, RawEntryMut};
use serde_json::{json, Value};

macro_rules! q {
    ($e:expr) => {{
        let _q = Quiet::new();
        $e
    }};
}

fn opt_v<V: ValT>(r: &Option<Option<V>>) -> Value {
    match r {
        Some(Some(v)) => some_v(v),
        Some(None) => none(),
        None => Value::Null,
    }
}

fn hash_of<K: KeyT>(hb: &HB, k: u32) -> u64 {
    let _ = std::marker::PhantomData::<K>;
    hb.hash_of(k)
}

impl<K: KeyT, V: ValT> World<K, V> {
    /// Executes one operation on the real code; returns the event.
    pub fn exec(&mut self, op: &Value) -> Value {
        // live zero-sized keys / values *before* the call: every temporary of the previous call is gone,
        // so these are exactly the objects the maps hold (judged against the previous snapshot)
        self.zl0 = crate::elem::zst_live();
        let name = op["op"].as_str().unwrap_or("?").to_string();
        let s = op.get("s").and_then(|x| x.as_u64()).unwrap_or(0) as usize;
        // optional fault injection: {"fault":{"kind":0..3,"at":n}}
        let fault = op
            .get("fault")
            .map(|f| (f["kind"].as_u64().unwrap() as usize, f["at"].as_u64().unwrap()));
        let armf = move || {
            if let Some((k, a)) = fault {
                arm(k, a)
            }
        };
        match name.as_str() {
            "New" => {
                let cap = usize_arg(op, "cap");
                let hb = HB {
                    mode: ou(op, "hm").unwrap_or(0) as u8,
                    seed: op.get("hs").and_then(|x| x.as_u64()).unwrap_or(0),
                };
                let set = op.get("ty").and_then(|x| x.as_str()) == Some("set");
                let old = self.slots[s].take();
                drop(old);
                let (r, meta) = measure(|| {
                    if set {
                        Slot::Set(if cap == 0 { S::with_hasher(hb) } else { S::with_capacity_and_hasher(cap, hb) })
                    } else {
                        Slot::<K, V>::Map(if cap == 0 { M::with_hasher(hb) } else { M::with_capacity_and_hasher(cap, hb) })
                    }
                });
                if let Some(slot) = r {
                    self.slots[s] = Some(slot);
                }
                self.finish(op, &meta, json!({"t":"unit"}), vec![])
            }
            "NewDflt" => {
                // the default-hasher constructors (`new`, `with_capacity`) only exist for S = DefaultHashBuilder, so
                // they cannot produce a map for a slot: exercised on a throw-away u32 collection, the C10 sentence
                // about with_capacity executed (capacity() >= n, n insertions without reallocation)
                let cap = usize_arg(op, "cap").min(4096);
                let set = op.get("ty").and_then(|x| x.as_str()) == Some("set");
                let mut res = json!({"t":"panic"});
                let meta;
                if set {
                    let (r1, m1) = measure(|| if cap == 0 { griddle::HashSet::<u32>::new() } else { griddle::HashSet::<u32>::with_capacity(cap) });
                    if let Some(mut m) = r1 {
                        let cap0 = m.capacity();
                        let (r2, m2) = measure(|| {
                            for i in 0..cap {
                                m.insert(i as u32);
                            }
                            (m.len(), m.capacity(), (0..cap).all(|i| m.contains(&(i as u32))))
                        });
                        if let Some((len, cap1, all)) = r2 {
                            res = json!({"t":"newd","cap0":cap0,"len":len,"cap1":cap1,"al0":m1.cost.al,"al1":m2.cost.al,"all":all as u32});
                        }
                        drop(m);
                        meta = m2;
                    } else {
                        meta = m1;
                    }
                } else {
                    let (r1, m1) = measure(|| if cap == 0 { griddle::HashMap::<u32, u32>::new() } else { griddle::HashMap::<u32, u32>::with_capacity(cap) });
                    if let Some(mut m) = r1 {
                        let cap0 = m.capacity();
                        let (r2, m2) = measure(|| {
                            for i in 0..cap {
                                m.insert(i as u32, i as u32 + 1);
                            }
                            (m.len(), m.capacity(), (0..cap).all(|i| m.get(&(i as u32)) == Some(&(i as u32 + 1))))
                        });
                        if let Some((len, cap1, all)) = r2 {
                            res = json!({"t":"newd","cap0":cap0,"len":len,"cap1":cap1,"al0":m1.cost.al,"al1":m2.cost.al,"all":all as u32});
                        }
                        drop(m);
                        meta = m2;
                    } else {
                        meta = m1;
                    }
                }
                self.finish(op, &meta, res, vec![("ncap", json!(cap))])
            }
            "Insert" => {
                let k = K::new(u(op, "k"));
                let v = V::new(u(op, "v"));
                let (kid, vid) = (k.id(), v.id());
                let map = self.map(s);
                let (r, meta) = measure(|| {
                    armf();
                    map.insert(k, v)
                });
                let res = opt_v(&r);
                drop(r);
                self.finish(op, &meta, res, vec![("kid", json!(kid)), ("vid", json!(vid))])
            }
            "Get" => {
                let kk = u(op, "k");
                let probe = K::probe(kk);
                let w = ou(op, "w");
                let kind = op["kind"].as_str().unwrap_or("get").to_string();
                let map = self.map(s);
                let hash = hash_of::<K>(map.hasher(), kk);
                // result: Option<(Option<(k,kid)>, v, vid)>
                let (r, meta) = measure(|| {
                    armf();
                    match kind.as_str() {
                        "get" => map.get(&probe).map(|v| (None, v.v(), v.id())),
                        "contains_key" => {
                            if map.contains_key(&probe) {
                                Some((None, 0, 0))
                            } else {
                                None
                            }
                        }
                        "get_key_value" => map.get_key_value(&probe).map(|(k, v)| (Some((k.k(), k.id())), v.v(), v.id())),
                        "index" => {
                            let v = &map[&probe];
                            Some((None, v.v(), v.id()))
                        }
                        "get_mut" => map.get_mut(&probe).map(|v| {
                            if let Some(w) = w {
                                v.set(w)
                            }
                            (None, v.v(), v.id())
                        }),
                        "get_key_value_mut" => map.get_key_value_mut(&probe).map(|(k, v)| {
                            if let Some(w) = w {
                                v.set(w)
                            }
                            (Some((k.k(), k.id())), v.v(), v.id())
                        }),
                        "raw_key" => map.raw_entry().from_key(&probe).map(|(k, v)| (Some((k.k(), k.id())), v.v(), v.id())),
                        "raw_key_hashed" => map
                            .raw_entry()
                            .from_key_hashed_nocheck(hash, &probe)
                            .map(|(k, v)| (Some((k.k(), k.id())), v.v(), v.id())),
                        "raw_hash" => map
                            .raw_entry()
                            .from_hash(hash, |q| *q == probe)
                            .map(|(k, v)| (Some((k.k(), k.id())), v.v(), v.id())),
                        _ => panic!("bad get kind"),
                    }
                });
                let res = match r {
                    Some(Some((ko, v, vid))) => {
                        let mut o = json!({"t":"some","v":v,"vid":vid});
                        if let Some((k, kid)) = ko {
                            o["k"] = json!(k);
                            o["kid"] = json!(kid);
                        }
                        o
                    }
                    Some(None) => none(),
                    None => Value::Null,
                };
                self.finish(op, &meta, res, vec![])
            }
            "Remove" | "RemoveEntry" => {
                let probe = K::probe(u(op, "k"));
                let map = self.map(s);
                let entry = name == "RemoveEntry";
                let (r, meta) = measure(|| {
                    armf();
                    if entry {
                        map.remove_entry(&probe).map(|(k, v)| (Some(k), v))
                    } else {
                        map.remove(&probe).map(|v| (None, v))
                    }
                });
                let res = match &r {
                    Some(Some((Some(k), v))) => some_kv(k, v),
                    Some(Some((None, v))) => some_v(v),
                    Some(None) => none(),
                    None => Value::Null,
                };
                drop(r);
                self.finish(op, &meta, res, vec![])
            }
            "Clear" => {
                let (_, meta) = if self.is_map(s) {
                    let map = self.map(s);
                    measure(|| {
                        armf();
                        map.clear()
                    })
                } else {
                    let set = self.set(s);
                    measure(|| set.clear())
                };
                self.finish(op, &meta, json!({"t":"unit"}), vec![])
            }
            "Reserve" | "TryReserve" | "ShrinkTo" | "ShrinkToFit" => {
                let n = if name == "ShrinkToFit" { 0 } else { usize_arg(op, "n") };
                let is_map = self.is_map(s);
                let nm = name.clone();
                let (r, meta) = if is_map {
                    let map = self.map(s);
                    measure(|| {
                        armf();
                        match nm.as_str() {
                            "Reserve" => {
                                map.reserve(n);
                                "ok"
                            }
                            "TryReserve" => match map.try_reserve(n) {
                                Ok(()) => "ok",
                                Err(griddle::TryReserveError::CapacityOverflow) => "err_overflow",
                                Err(griddle::TryReserveError::AllocError { .. }) => "err_alloc",
                            },
                            "ShrinkTo" => {
                                map.shrink_to(n);
                                "ok"
                            }
                            _ => {
                                map.shrink_to_fit();
                                "ok"
                            }
                        }
                    })
                } else {
                    let set = self.set(s);
                    measure(|| {
                        armf();
                        match nm.as_str() {
                            "Reserve" => {
                                set.reserve(n);
                                "ok"
                            }
                            "TryReserve" => match set.try_reserve(n) {
                                Ok(()) => "ok",
                                Err(griddle::TryReserveError::CapacityOverflow) => "err_overflow",
                                Err(griddle::TryReserveError::AllocError { .. }) => "err_alloc",
                            },
                            "ShrinkTo" => {
                                set.shrink_to(n);
                                "ok"
                            }
                            _ => {
                                set.shrink_to_fit();
                                "ok"
                            }
                        }
                    })
                };
                let res = match r {
                    Some(x) => json!({"t": x}),
                    None => Value::Null,
                };
                self.finish(op, &meta, res, vec![])
            }
            "Retain" => {
                // keep iff pred; optional value mutation {"add":x} applied to every visited value
                let pred = op["pred"].clone();
                let add = ou(op, "add");
                let mut calls: Vec<Value> = Vec::new();
                let is_map = self.is_map(s);
                let (_, meta) = if is_map {
                    let map = self.map(s);
                    measure(|| {
                        armf();
                        map.retain(|k, v| {
                            tick(CLOSURE, k.k());
                            let keep = pred_eval(&pred, k.k(), v.v());
                            if let Some(a) = add {
                                v.set(v.v().wrapping_add(a) % 1000);
                            }
                            q!(calls.push(json!([k.k(), v.v(), keep as u8, k.id(), v.id()])));
                            keep
                        })
                    })
                } else {
                    let set = self.set(s);
                    measure(|| {
                        armf();
                        set.retain(|k| {
                            tick(CLOSURE, k.k());
                            let keep = pred_eval(&pred, k.k(), 0);
                            q!(calls.push(json!([k.k(), 0, keep as u8, k.id(), 0])));
                            keep
                        })
                    })
                };
                self.finish(op, &meta, json!({"t":"unit"}), vec![("calls", Value::Array(calls))])
            }
            "DrainFilter" => {
                // yields iff pred; "take": how many next() calls before the end action; end: exhaust|drop|forget
                let pred = op["pred"].clone();
                let add = ou(op, "add");
                let take = op.get("take").and_then(|x| x.as_u64()).map(|x| x as usize);
                let end = op["end"].as_str().unwrap_or("exhaust").to_string();
                let mut calls: Vec<Value> = Vec::new();
                let mut yielded: Vec<Value> = Vec::new();
                let is_map = self.is_map(s);
                let (_, meta) = if is_map {
                    let map = self.map(s);
                    measure(|| {
                        armf();
                        let mut it = map.drain_filter(|k, v| {
                            tick(CLOSURE, k.k());
                            let y = pred_eval(&pred, k.k(), v.v());
                            if let Some(a) = add {
                                v.set(v.v().wrapping_add(a) % 1000);
                            }
                            q!(calls.push(json!([k.k(), v.v(), y as u8, k.id(), v.id()])));
                            y
                        });
                        let mut kept = q!(Vec::new());
                        let mut n = 0;
                        loop {
                            if let Some(t) = take {
                                if n >= t {
                                    break;
                                }
                            }
                            match it.next() {
                                Some((k, v)) => {
                                    q!(yielded.push(kv_json(&k, &v)));
                                    q!(kept.push((k, v)));
                                    n += 1;
                                }
                                None => break,
                            }
                        }
                        if end == "forget" {
                            std::mem::forget(it);
                        } else {
                            drop(it);
                        }
                        kept
                    })
                    .clone_meta()
                } else {
                    let set = self.set(s);
                    measure(|| {
                        armf();
                        let mut it = set.drain_filter(|k| {
                            tick(CLOSURE, k.k());
                            let y = pred_eval(&pred, k.k(), 0);
                            q!(calls.push(json!([k.k(), 0, y as u8, k.id(), 0])));
                            y
                        });
                        let mut kept = q!(Vec::new());
                        let mut n = 0;
                        loop {
                            if let Some(t) = take {
                                if n >= t {
                                    break;
                                }
                            }
                            match it.next() {
                                Some(k) => {
                                    q!(yielded.push(json!([k.k(), 0, k.id(), 0])));
                                    q!(kept.push(k));
                                    n += 1;
                                }
                                None => break,
                            }
                        }
                        if end == "forget" {
                            std::mem::forget(it);
                        } else {
                            drop(it);
                        }
                        kept
                    })
                    .clone_meta()
                };
                self.finish(
                    op,
                    &meta,
                    json!({"t":"unit"}),
                    vec![("calls", Value::Array(calls)), ("yield", Value::Array(yielded))],
                )
            }
            "Drain" => {
                let take = op.get("take").and_then(|x| x.as_u64()).map(|x| x as usize);
                let end = op["end"].as_str().unwrap_or("exhaust").to_string();
                let extra = ou(op, "extra").unwrap_or(0);
                let mut yielded: Vec<Value> = Vec::new();
                let mut hints: Vec<Value> = Vec::new();
                let mut tail: Vec<Value> = Vec::new();
                let is_map = self.is_map(s);
                let (_, meta) = if is_map {
                    let map = self.map(s);
                    measure(|| {
                        armf();
                        let mut it = map.drain();
                        let mut kept = q!(Vec::new());
                        let mut n = 0;
                        loop {
                            q!(hints.push(json!([it.size_hint().0, it.size_hint().1.map_or(-1, |x| x as i64), it.len()])));
                            if let Some(t) = take {
                                if n >= t {
                                    break;
                                }
                            }
                            match it.next() {
                                Some((k, v)) => {
                                    q!(yielded.push(kv_json(&k, &v)));
                                    q!(kept.push((k, v)));
                                    n += 1;
                                }
                                None => {
                                    for _ in 0..extra {
                                        let x = it.next().is_none();
                                        q!(tail.push(json!(x as u8)));
                                    }
                                    break;
                                }
                            }
                        }
                        if end == "forget" {
                            if K::NAME == "zst" {
                                crate::elem::zst_leak(it.len(), it.len());
                            }
                            std::mem::forget(it);
                        } else {
                            drop(it);
                        }
                        kept
                    })
                    .clone_meta()
                } else {
                    let set = self.set(s);
                    measure(|| {
                        armf();
                        let mut it = set.drain();
                        let mut kept = q!(Vec::new());
                        let mut n = 0;
                        loop {
                            q!(hints.push(json!([it.size_hint().0, it.size_hint().1.map_or(-1, |x| x as i64), it.len()])));
                            if let Some(t) = take {
                                if n >= t {
                                    break;
                                }
                            }
                            match it.next() {
                                Some(k) => {
                                    q!(yielded.push(json!([k.k(), 0, k.id(), 0])));
                                    q!(kept.push(k));
                                    n += 1;
                                }
                                None => {
                                    for _ in 0..extra {
                                        let x = it.next().is_none();
                                        q!(tail.push(json!(x as u8)));
                                    }
                                    break;
                                }
                            }
                        }
                        if end == "forget" {
                            if K::NAME == "zst" {
                                crate::elem::zst_leak(it.len(), 0);
                            }
                            std::mem::forget(it);
                        } else {
                            drop(it);
                        }
                        kept
                    })
                    .clone_meta()
                };
                self.finish(
                    op,
                    &meta,
                    json!({"t":"unit"}),
                    vec![
                        ("yield", Value::Array(yielded)),
                        ("hints", Value::Array(hints)),
                        ("tail", Value::Array(tail)),
                    ],
                )
            }
            "IntoIter" => {
                // consumes the slot; "take": number of next() calls, then the iterator is dropped
                let take = op.get("take").and_then(|x| x.as_u64()).map(|x| x as usize);
                let extra = ou(op, "extra").unwrap_or(0);
                let mut yielded: Vec<Value> = Vec::new();
                let mut hints: Vec<Value> = Vec::new();
                let mut tail: Vec<Value> = Vec::new();
                let slot = self.slots[s].take().expect("dead slot");
                let (_, meta) = measure(|| {
                    armf();
                    match slot {
                        Slot::Map(map) => {
                            let mut it = map.into_iter();
                            let mut kept = q!(Vec::new());
                            let mut n = 0;
                            loop {
                                q!(hints.push(json!([it.size_hint().0, it.size_hint().1.map_or(-1, |x| x as i64), it.len()])));
                                if let Some(t) = take {
                                    if n >= t {
                                        break;
                                    }
                                }
                                match it.next() {
                                    Some((k, v)) => {
                                        q!(yielded.push(kv_json(&k, &v)));
                                        q!(kept.push((Some(k), Some(v))));
                                        n += 1;
                                    }
                                    None => {
                                        for _ in 0..extra {
                                            let x = it.next().is_none();
                                            q!(tail.push(json!(x as u8)));
                                        }
                                        break;
                                    }
                                }
                            }
                            drop(it);
                            kept
                        }
                        Slot::Set(set) => {
                            let mut it = set.into_iter();
                            let mut kept = q!(Vec::new());
                            let mut n = 0;
                            loop {
                                q!(hints.push(json!([it.size_hint().0, it.size_hint().1.map_or(-1, |x| x as i64), it.len()])));
                                if let Some(t) = take {
                                    if n >= t {
                                        break;
                                    }
                                }
                                match it.next() {
                                    Some(k) => {
                                        q!(yielded.push(json!([k.k(), 0, k.id(), 0])));
                                        q!(kept.push((Some(k), None::<V>)));
                                        n += 1;
                                    }
                                    None => {
                                        for _ in 0..extra {
                                            let x = it.next().is_none();
                                            q!(tail.push(json!(x as u8)));
                                        }
                                        break;
                                    }
                                }
                            }
                            drop(it);
                            kept
                        }
                    }
                })
                .clone_meta();
                self.finish(
                    op,
                    &meta,
                    json!({"t":"unit"}),
                    vec![
                        ("yield", Value::Array(yielded)),
                        ("hints", Value::Array(hints)),
                        ("tail", Value::Array(tail)),
                    ],
                )
            }
            "DropMap" => {
                let slot = self.slots[s].take();
                let (_, meta) = measure(|| drop(slot));
                self.finish(op, &meta, json!({"t":"unit"}), vec![])
            }
            "Iter" => {
                // kind: iter|keys|values|iter_mut|values_mut|ref_into_iter|mut_into_iter ; "add": write through
                // mutable items; "clone_at": clone the iterator after that many items and drain the clone too;
                // "take": stop early; "extra": next() calls after None
                let kind = op["kind"].as_str().unwrap_or("iter").to_string();
                let add = ou(op, "add");
                let take = op.get("take").and_then(|x| x.as_u64()).map(|x| x as usize);
                let clone_at = op.get("clone_at").and_then(|x| x.as_u64()).map(|x| x as usize);
                let extra = ou(op, "extra").unwrap_or(0);
                let mut yielded: Vec<Value> = Vec::new();
                let mut cyield: Vec<Value> = Vec::new();
                let mut hints: Vec<Value> = Vec::new();
                let mut tail: Vec<Value> = Vec::new();
                macro_rules! walk {
                    ($it:expr, $conv:expr, $clonable:expr) => {{
                        let mut it = $it;
                        let mut n = 0usize;
                        loop {
                            q!(hints.push(json!([it.size_hint().0, it.size_hint().1.map_or(-1, |x| x as i64), it.len()])));
                            if Some(n) == clone_at {
                                $clonable(&it, &mut cyield);
                            }
                            if let Some(t) = take {
                                if n >= t {
                                    break;
                                }
                            }
                            match it.next() {
                                Some(x) => {
                                    let j = $conv(x);
                                    q!(yielded.push(j));
                                    n += 1;
                                }
                                None => {
                                    for _ in 0..extra {
                                        let x = it.next().is_none();
                                        q!(tail.push(json!(x as u8)));
                                    }
                                    break;
                                }
                            }
                        }
                    }};
                }
                let is_map = self.is_map(s);
                let (_, meta) = if is_map {
                    let map = self.map(s);
                    measure(|| {
                        armf();
                        match kind.as_str() {
                            "iter" => walk!(
                                map.iter(),
                                |(k, v): (&K, &V)| kv_json(k, v),
                                |it: &griddle::hash_map::Iter<'_, K, V>, cy: &mut Vec<Value>| {
                                    for (k, v) in it.clone() {
                                        q!(cy.push(kv_json(k, v)));
                                    }
                                }
                            ),
                            "ref_into_iter" => walk!(
                                (&*map).into_iter(),
                                |(k, v): (&K, &V)| kv_json(k, v),
                                |_it: &griddle::hash_map::Iter<'_, K, V>, _cy: &mut Vec<Value>| {}
                            ),
                            "zip" => {
                                // keys() and values() must enumerate in the same order (as iter() does)
                                for k in map.keys() {
                                    q!(cyield.push(json!([k.k(), 0, k.id(), 0])));
                                }
                                for v in map.values() {
                                    q!(tail.push(json!([0, v.v(), 0, v.id()])));
                                }
                                for (k, v) in map.iter() {
                                    q!(yielded.push(kv_json(k, v)));
                                }
                            }
                            "keys" => walk!(
                                map.keys(),
                                |k: &K| json!([k.k(), 0, k.id(), 0]),
                                |it: &griddle::hash_map::Keys<'_, K, V>, cy: &mut Vec<Value>| {
                                    for k in it.clone() {
                                        q!(cy.push(json!([k.k(), 0, k.id(), 0])));
                                    }
                                }
                            ),
                            "values" => walk!(
                                map.values(),
                                |v: &V| json!([0, v.v(), 0, v.id()]),
                                |it: &griddle::hash_map::Values<'_, K, V>, cy: &mut Vec<Value>| {
                                    for v in it.clone() {
                                        q!(cy.push(json!([0, v.v(), 0, v.id()])));
                                    }
                                }
                            ),
                            "iter_mut" => walk!(
                                map.iter_mut(),
                                |(k, v): (&K, &mut V)| {
                                    if let Some(a) = add {
                                        v.set(v.v().wrapping_add(a) % 1000);
                                    }
                                    kv_json(k, v)
                                },
                                |_it: &griddle::hash_map::IterMut<'_, K, V>, _cy: &mut Vec<Value>| {}
                            ),
                            "mut_into_iter" => walk!(
                                (&mut *map).into_iter(),
                                |(k, v): (&K, &mut V)| {
                                    if let Some(a) = add {
                                        v.set(v.v().wrapping_add(a) % 1000);
                                    }
                                    kv_json(k, v)
                                },
                                |_it: &griddle::hash_map::IterMut<'_, K, V>, _cy: &mut Vec<Value>| {}
                            ),
                            "values_mut" => walk!(
                                map.values_mut(),
                                |v: &mut V| {
                                    if let Some(a) = add {
                                        v.set(v.v().wrapping_add(a) % 1000);
                                    }
                                    json!([0, v.v(), 0, v.id()])
                                },
                                |_it: &griddle::hash_map::ValuesMut<'_, K, V>, _cy: &mut Vec<Value>| {}
                            ),
                            _ => panic!("bad iter kind"),
                        }
                    })
                } else {
                    let set = self.set(s);
                    measure(|| {
                        armf();
                        walk!(
                            set.iter(),
                            |k: &K| json!([k.k(), 0, k.id(), 0]),
                            |it: &griddle::hash_set::Iter<'_, K>, cy: &mut Vec<Value>| {
                                for k in it.clone() {
                                    q!(cy.push(json!([k.k(), 0, k.id(), 0])));
                                }
                            }
                        )
                    })
                };
                self.finish(
                    op,
                    &meta,
                    json!({"t":"unit"}),
                    vec![
                        ("yield", Value::Array(yielded)),
                        ("cyield", Value::Array(cyield)),
                        ("hints", Value::Array(hints)),
                        ("tail", Value::Array(tail)),
                    ],
                )
            }
            "Extend" | "ExtendRef" => {
                // items: [[k,v],...]; "hint": lower size hint reported by the iterator (default: exact)
                let items: Vec<(u32, u32)> = op["items"]
                    .as_array()
                    .unwrap()
                    .iter()
                    .map(|x| (x[0].as_u64().unwrap() as u32, x[1].as_u64().unwrap_or(0) as u32))
                    .collect();
                let hint = if op.get("hint").map_or(false, |h| h.is_object()) {
                    usize_arg(op, "hint")
                } else {
                    op.get("hint").and_then(|x| x.as_u64()).map(|x| x as usize).unwrap_or(items.len())
                };
                let is_map = self.is_map(s);
                let mut ids: Vec<Value> = Vec::new();
                // Copy element types: every other call goes through `Extend<(&K, &V)>` / `Extend<&T>` (same
                // contract: the map ends up holding copies)
                self.ext_ctr += 1;
                let by_ref = matches!(K::NAME, "plain" | "fat") && self.ext_ctr % 2 == 0;
                let mut used_ref = false;
                let (_, meta) = if is_map {
                    let objs: Vec<(K, V)> = items.iter().map(|&(k, v)| (K::new(k), V::new(v))).collect();
                    for (k, v) in &objs {
                        ids.push(json!([k.k(), v.v(), k.id(), v.id()]));
                    }
                    let map = self.map(s);
                    let ur = &mut used_ref;
                    measure(|| {
                        armf();
                        if by_ref && extend_map_by_ref(map, &objs, hint) {
                            *ur = true;
                        } else {
                            map.extend(Hinted { it: objs.into_iter(), hint })
                        }
                    })
                } else {
                    let objs: Vec<K> = items.iter().map(|&(k, _)| K::new(k)).collect();
                    for k in &objs {
                        ids.push(json!([k.k(), 0, k.id(), 0]));
                    }
                    let set = self.set(s);
                    let ur = &mut used_ref;
                    measure(|| {
                        armf();
                        if by_ref && extend_set_by_ref(set, &objs, hint) {
                            *ur = true;
                        } else {
                            set.extend(Hinted { it: objs.into_iter(), hint })
                        }
                    })
                };
                self.finish(op, &meta, json!({"t":"unit"}), vec![("objs", Value::Array(ids)), ("by_ref", json!(used_ref as u32))])
            }
            "Probe" => {
                // C04's own sentence, executed: insert capacity()-len() previously unseen keys
                let (cap0, len0) = match self.slots[s].as_ref().expect("dead") {
                    Slot::Map(m) => (m.capacity(), m.len()),
                    Slot::Set(m) => (m.capacity(), m.len()),
                };
                let k = cap0.saturating_sub(len0).min(400);
                let base = 500_000 + (self.probe_ctr as u32) * 1000;
                self.probe_ctr += 1;
                let zst = K::NAME == "zst";
                let is_map = self.is_map(s);
                let mut ids: Vec<Value> = Vec::new();
                let mut mincap = cap0;
                let k = if zst { 0 } else { k };
                let (_, meta) = if is_map {
                    let objs: Vec<(K, V)> = (0..k).map(|i| (K::new(base + i as u32), V::new(0))).collect();
                    for (k, v) in &objs {
                        ids.push(json!([k.k(), v.v(), k.id(), v.id()]));
                    }
                    // "via": which inserting API fills the room (C04's sentence does not say `insert`)
                    let via = op.get("via").and_then(|x| x.as_str()).unwrap_or("insert").to_string();
                    let map = self.map(s);
                    measure(|| {
                        armf();
                        for (i, (k, v)) in objs.into_iter().enumerate() {
                            match (via.as_str(), i % 2) {
                                ("entry", _) | ("mixed", 0) => {
                                    map.entry(k).or_insert(v);
                                }
                                ("raw", _) => match map.raw_entry_mut().from_key(&k) {
                                    RawEntryMut::Vacant(ve) => {
                                        ve.insert(k, v);
                                    }
                                    RawEntryMut::Occupied(_) => unreachable!("probe key present"),
                                },
                                _ => {
                                    map.insert(k, v);
                                }
                            }
                            mincap = mincap.min(map.capacity());
                        }
                    })
                } else {
                    let objs: Vec<K> = (0..k).map(|i| K::new(base + i as u32)).collect();
                    for k in &objs {
                        ids.push(json!([k.k(), 0, k.id(), 0]));
                    }
                    let via = op.get("via").and_then(|x| x.as_str()).unwrap_or("insert").to_string();
                    let set = self.set(s);
                    measure(|| {
                        armf();
                        for k in objs {
                            if via == "insert" {
                                set.insert(k);
                            } else {
                                set.get_or_insert(k);
                            }
                            mincap = mincap.min(set.capacity());
                        }
                    })
                };
                self.finish(op, &meta, json!({"t":"unit"}), vec![("objs", Value::Array(ids)), ("mincap", json!(mincap)), ("k", json!(k))])
            }
            "FromIter" => {
                let items: Vec<(u32, u32)> = op["items"]
                    .as_array()
                    .unwrap()
                    .iter()
                    .map(|x| (x[0].as_u64().unwrap() as u32, x[1].as_u64().unwrap_or(0) as u32))
                    .collect();
                let hint = if op.get("hint").map_or(false, |h| h.is_object()) {
                    usize_arg(op, "hint")
                } else {
                    op.get("hint").and_then(|x| x.as_u64()).map(|x| x as usize).unwrap_or(items.len())
                };
                let set = op.get("ty").and_then(|x| x.as_str()) == Some("set");
                DEFAULT_HM.store(ou(op, "hm").unwrap_or(0) as usize, std::sync::atomic::Ordering::Relaxed);
                let old = self.slots[s].take();
                drop(old);
                let mut ids: Vec<Value> = Vec::new();
                let (r, meta) = if !set {
                    let objs: Vec<(K, V)> = items.iter().map(|&(k, v)| (K::new(k), V::new(v))).collect();
                    for (k, v) in &objs {
                        ids.push(json!([k.k(), v.v(), k.id(), v.id()]));
                    }
                    measure(|| {
                        armf();
                        Slot::Map(Hinted { it: objs.into_iter(), hint }.collect::<M<K, V>>())
                    })
                } else {
                    let objs: Vec<K> = items.iter().map(|&(k, _)| K::new(k)).collect();
                    for k in &objs {
                        ids.push(json!([k.k(), 0, k.id(), 0]));
                    }
                    measure(|| {
                        armf();
                        Slot::Set(Hinted { it: objs.into_iter(), hint }.collect::<S<K>>())
                    })
                };
                if let Some(slot) = r {
                    self.slots[s] = Some(slot);
                }
                self.finish(op, &meta, json!({"t":"unit"}), vec![("objs", Value::Array(ids))])
            }
            "Clone" => {
                // d := s.clone()
                let d = u(op, "d") as usize;
                let old = self.slots[d].take();
                drop(old);
                let src = self.slots[s].as_ref().expect("dead slot");
                let (r, meta) = measure(|| {
                    armf();
                    match src {
                        Slot::Map(m) => Slot::Map(m.clone()),
                        Slot::Set(m) => Slot::Set(m.clone()),
                    }
                });
                if let Some(slot) = r {
                    self.slots[d] = Some(slot);
                }
                self.finish(op, &meta, json!({"t":"unit"}), vec![])
            }
            "CloneFrom" => {
                // d.clone_from(&s)
                let d = u(op, "d") as usize;
                assert!(d != s);
                let mut dst = self.slots[d].take().expect("dead dst");
                let src = self.slots[s].as_ref().expect("dead slot");
                let (_, meta) = measure(|| {
                    armf();
                    match (&mut dst, src) {
                        (Slot::Map(a), Slot::Map(b)) => a.clone_from(b),
                        (Slot::Set(a), Slot::Set(b)) => a.clone_from(b),
                        _ => panic!("type mismatch"),
                    }
                });
                self.slots[d] = Some(dst);
                self.finish(op, &meta, json!({"t":"unit"}), vec![])
            }
            "Eq" => {
                let d = u(op, "d") as usize;
                let a = self.slots[s].as_ref().expect("dead");
                let b = self.slots[d].as_ref().expect("dead");
                let (r, meta) = measure(|| {
                    armf();
                    match (a, b) {
                        (Slot::Map(a), Slot::Map(b)) => a == b,
                        (Slot::Set(a), Slot::Set(b)) => a == b,
                        _ => panic!("type mismatch"),
                    }
                });
                let res = r.map(|x| json!({"t":"bool","b":x as u8})).unwrap_or(Value::Null);
                self.finish(op, &meta, res, vec![])
            }
            "Entry" => self.exec_entry(op, s, fault),
            "RawEntry" => self.exec_raw_entry(op, s, fault),
            _ => {
                if let Some(ev) = self.exec_ext(op, &name, s) {
                    return ev;
                }
                self.exec_set(op, &name, s, fault)
            }
        }
    }

    fn exec_entry(&mut self, op: &Value, s: usize, fault: Option<(usize, u64)>) -> Value {
        let kk = u(op, "k");
        let key = K::new(kk);
        let kid = key.id();
        let chain: Vec<Value> = op["chain"].as_array().cloned().unwrap_or_default();
        // pre-create the value objects the chain needs
        let mut vals: Vec<Option<V>> = chain
            .iter()
            .map(|m| {
                let needs = matches!(
                    m["m"].as_str().unwrap_or(""),
                    "or_insert" | "or_insert_with" | "or_insert_with_key" | "insert" | "o_insert" | "o_replace_entry" | "v_insert"
                );
                if needs {
                    Some(V::new(m["v"].as_u64().unwrap_or(0) as u32))
                } else {
                    None
                }
            })
            .collect();
        let mut vids: Vec<Value> = vals.iter().map(|v| json!(v.as_ref().map_or(0, |v| v.id()))).collect();
        let dvids: std::cell::RefCell<Vec<(usize, u32)>> = std::cell::RefCell::new(Vec::new());
        let mut obs: Vec<Value> = Vec::new();
        enum Cur<'a, K, V> {
            E(Entry<'a, K, V, HB>),
            O(griddle::hash_map::OccupiedEntry<'a, K, V, HB>),
            Va(griddle::hash_map::VacantEntry<'a, K, V, HB>),
            R(&'a mut V),
            Done,
        }
        let map = self.map(s);
        let (held, meta) = measure(|| {
            if let Some((k, a)) = fault {
                arm(k, a)
            }
            let mut held: Vec<(Option<K>, Option<V>)> = q!(Vec::new());
            let mut cur = Cur::E(map.entry(key));
            for (i, m) in chain.iter().enumerate() {
                let name = m["m"].as_str().unwrap_or("");
                let w = m.get("w").and_then(|x| x.as_u64()).map(|x| x as u32);
                let add = m.get("add").and_then(|x| x.as_u64()).map(|x| x as u32).unwrap_or(1);
                let some = m.get("some").and_then(|x| x.as_u64()).map(|x| x as u32);
                let mut o = q!(json!({"m": name}));
                macro_rules! seto {
                    ($k:expr, $v:expr) => {
                        q!(o[$k] = json!($v))
                    };
                }
                cur = match (cur, name) {
                    (Cur::E(e), "key") => {
                        seto!("k", e.key().k());
                        seto!("kid", e.key().id());
                        Cur::E(e)
                    }
                    (Cur::E(e), "or_insert") => {
                        let r = e.or_insert(vals[i].take().unwrap());
                        Cur::R(r)
                    }
                    (Cur::E(e), "or_insert_with") => {
                        let vv = vals[i].take().unwrap();
                        let r = e.or_insert_with(|| {
                            tick(CLOSURE, 0);
                            vv
                        });
                        Cur::R(r)
                    }
                    (Cur::E(e), "or_default") => {
                        // the value object (if any) is created inside the map: its id is only known afterwards
                        let occ = matches!(e, Entry::Occupied(_));
                        let r = e.or_default();
                        if !occ {
                            let id = r.id();
                            q!(dvids.borrow_mut().push((i, id)));
                        }
                        Cur::R(r)
                    }
                    (Cur::E(e), "or_insert_with_key") => {
                        let vv = vals[i].take().unwrap();
                        let r = e.or_insert_with_key(|k| {
                            tick(CLOSURE, k.k());
                            vv
                        });
                        Cur::R(r)
                    }
                    (Cur::E(e), "and_modify") => Cur::E(e.and_modify(|v| {
                        tick(CLOSURE, 0);
                        v.set(v.v().wrapping_add(add) % 1000)
                    })),
                    (Cur::E(e), "and_replace_entry_with") => Cur::E(e.and_replace_entry_with(|k, mut v| {
                        tick(CLOSURE, k.k());
                        match some {
                            Some(nv) => {
                                v.set(nv);
                                Some(v)
                            }
                            None => None,
                        }
                    })),
                    (Cur::E(e), "insert") => Cur::O(e.insert(vals[i].take().unwrap())),
                    (Cur::E(e), "match") => match e {
                        Entry::Occupied(oe) => {
                            seto!("occ", 1);
                            Cur::O(oe)
                        }
                        Entry::Vacant(ve) => {
                            seto!("occ", 0);
                            Cur::Va(ve)
                        }
                    },
                    (Cur::O(oe), "o_key") => {
                        seto!("k", oe.key().k());
                        seto!("kid", oe.key().id());
                        Cur::O(oe)
                    }
                    (Cur::O(oe), "o_get") => {
                        seto!("v", oe.get().v());
                        seto!("vid", oe.get().id());
                        Cur::O(oe)
                    }
                    (Cur::O(mut oe), "o_get_mut") => {
                        {
                            let r = oe.get_mut();
                            if let Some(w) = w {
                                r.set(w)
                            }
                        }
                        seto!("v", oe.get().v());
                        seto!("vid", oe.get().id());
                        Cur::O(oe)
                    }
                    (Cur::O(oe), "o_into_mut") => Cur::R(oe.into_mut()),
                    (Cur::O(mut oe), "o_insert") => {
                        let old = oe.insert(vals[i].take().unwrap());
                        seto!("rv", old.v());
                        seto!("rvid", old.id());
                        q!(held.push((None, Some(old))));
                        Cur::O(oe)
                    }
                    (Cur::O(oe), "o_remove") => {
                        let old = oe.remove();
                        seto!("rv", old.v());
                        seto!("rvid", old.id());
                        q!(held.push((None, Some(old))));
                        Cur::Done
                    }
                    (Cur::O(oe), "o_remove_entry") => {
                        let (k, old) = oe.remove_entry();
                        seto!("rk", k.k());
                        seto!("rkid", k.id());
                        seto!("rv", old.v());
                        seto!("rvid", old.id());
                        q!(held.push((Some(k), Some(old))));
                        Cur::Done
                    }
                    (Cur::O(oe), "o_replace_entry") => {
                        let (k, old) = oe.replace_entry(vals[i].take().unwrap());
                        seto!("rk", k.k());
                        seto!("rkid", k.id());
                        seto!("rv", old.v());
                        seto!("rvid", old.id());
                        q!(held.push((Some(k), Some(old))));
                        Cur::Done
                    }
                    (Cur::O(oe), "o_replace_key") => {
                        let k = oe.replace_key();
                        seto!("rk", k.k());
                        seto!("rkid", k.id());
                        q!(held.push((Some(k), None)));
                        Cur::Done
                    }
                    (Cur::O(oe), "o_replace_entry_with") => Cur::E(oe.replace_entry_with(|k, mut v| {
                        tick(CLOSURE, k.k());
                        match some {
                            Some(nv) => {
                                v.set(nv);
                                Some(v)
                            }
                            None => None,
                        }
                    })),
                    (Cur::Va(ve), "v_key") => {
                        seto!("k", ve.key().k());
                        seto!("kid", ve.key().id());
                        Cur::Va(ve)
                    }
                    (Cur::Va(ve), "v_into_key") => {
                        let k = ve.into_key();
                        seto!("rk", k.k());
                        seto!("rkid", k.id());
                        q!(held.push((Some(k), None)));
                        Cur::Done
                    }
                    (Cur::Va(ve), "v_insert") => Cur::R(ve.insert(vals[i].take().unwrap())),
                    (Cur::R(r), "write") => {
                        if let Some(w) = w {
                            r.set(w)
                        }
                        seto!("v", r.v());
                        seto!("vid", r.id());
                        Cur::R(r)
                    }
                    (Cur::R(r), "read") => {
                        seto!("v", r.v());
                        seto!("vid", r.id());
                        Cur::R(r)
                    }
                    (c, _) => {
                        seto!("na", 1);
                        c
                    }
                };
                q!(obs.push(o));
            }
            drop(cur);
            held
        });
        // values the chain did not consume are dropped by the harness (outside the window)
        let unused: Vec<Value> = vals
            .iter()
            .enumerate()
            .filter(|(_, v)| v.is_some())
            .map(|(i, _)| json!(i + 1))
            .collect();
        drop(vals);
        drop(held);
        self.finish(
            op,
            &meta,
            json!({"t":"unit"}),
            vec![
                ("kid", json!(kid)),
                ("vids", Value::Array({
                    for (i, id) in dvids.borrow().iter() {
                        vids[*i] = json!(*id);
                    }
                    vids
                })),
                ("obs", Value::Array(obs)),
                ("unused", Value::Array(unused)),
            ],
        )
    }

    fn exec_raw_entry(&mut self, op: &Value, s: usize, fault: Option<(usize, u64)>) -> Value {
        let kk = u(op, "k");
        let probe = K::probe(kk);
        let via = op["via"].as_str().unwrap_or("key").to_string();
        let chain: Vec<Value> = op["chain"].as_array().cloned().unwrap_or_default();
        let mut objs: Vec<(Option<K>, Option<V>)> = chain
            .iter()
            .map(|m| {
                let n = m["m"].as_str().unwrap_or("");
                let needk = matches!(
                    n,
                    "insert" | "or_insert" | "or_insert_with" | "o_insert_key" | "v_insert" | "v_insert_hashed" | "v_insert_with_hasher"
                );
                let needv = matches!(
                    n,
                    "insert" | "or_insert" | "or_insert_with" | "o_insert" | "v_insert" | "v_insert_hashed" | "v_insert_with_hasher"
                );
                (
                    if needk { Some(K::new(kk)) } else { None },
                    if needv { Some(V::new(m["v"].as_u64().unwrap_or(0) as u32)) } else { None },
                )
            })
            .collect();
        let ids: Vec<Value> = objs
            .iter()
            .map(|(k, v)| json!([k.as_ref().map_or(0, |k| k.id()), v.as_ref().map_or(0, |v| v.id())]))
            .collect();
        let mut obs: Vec<Value> = Vec::new();
        enum Cur<'a, K, V> {
            E(RawEntryMut<'a, K, V, HB>),
            O(griddle::hash_map::RawOccupiedEntryMut<'a, K, V, HB>),
            Va(griddle::hash_map::RawVacantEntryMut<'a, K, V, HB>),
            R(&'a mut K, &'a mut V),
            Done,
        }
        let map = self.map(s);
        let hbc = map.hasher().clone();
        let hash = hbc.hash_of(kk);
        let (held, meta) = measure(|| {
            if let Some((k, a)) = fault {
                arm(k, a)
            }
            let mut held: Vec<(Option<K>, Option<V>)> = q!(Vec::new());
            let b = map.raw_entry_mut();
            let mut cur = Cur::E(match via.as_str() {
                "key" => b.from_key(&probe),
                "hashed" => b.from_key_hashed_nocheck(hash, &probe),
                _ => b.from_hash(hash, |q| *q == probe),
            });
            for (i, m) in chain.iter().enumerate() {
                let name = m["m"].as_str().unwrap_or("");
                let w = m.get("w").and_then(|x| x.as_u64()).map(|x| x as u32);
                let add = m.get("add").and_then(|x| x.as_u64()).map(|x| x as u32).unwrap_or(1);
                let some = m.get("some").and_then(|x| x.as_u64()).map(|x| x as u32);
                let mut o = q!(json!({"m": name}));
                macro_rules! seto {
                    ($k:expr, $v:expr) => {
                        q!(o[$k] = json!($v))
                    };
                }
                cur = match (cur, name) {
                    (Cur::E(e), "insert") => {
                        let (k, v) = (objs[i].0.take().unwrap(), objs[i].1.take().unwrap());
                        Cur::O(e.insert(k, v))
                    }
                    (Cur::E(e), "or_insert") => {
                        let (k, v) = (objs[i].0.take().unwrap(), objs[i].1.take().unwrap());
                        let (rk, rv) = e.or_insert(k, v);
                        Cur::R(rk, rv)
                    }
                    (Cur::E(e), "or_insert_with") => {
                        let (k, v) = (objs[i].0.take().unwrap(), objs[i].1.take().unwrap());
                        let (rk, rv) = e.or_insert_with(|| {
                            tick(CLOSURE, 0);
                            (k, v)
                        });
                        Cur::R(rk, rv)
                    }
                    (Cur::E(e), "and_modify") => Cur::E(e.and_modify(|_k, v| {
                        tick(CLOSURE, 0);
                        v.set(v.v().wrapping_add(add) % 1000)
                    })),
                    (Cur::E(e), "and_replace_entry_with") => Cur::E(e.and_replace_entry_with(|k, mut v| {
                        tick(CLOSURE, k.k());
                        match some {
                            Some(nv) => {
                                v.set(nv);
                                Some(v)
                            }
                            None => None,
                        }
                    })),
                    (Cur::E(e), "match") => match e {
                        RawEntryMut::Occupied(oe) => {
                            seto!("occ", 1);
                            Cur::O(oe)
                        }
                        RawEntryMut::Vacant(ve) => {
                            seto!("occ", 0);
                            Cur::Va(ve)
                        }
                    },
                    (Cur::O(oe), "o_key") => {
                        seto!("k", oe.key().k());
                        seto!("kid", oe.key().id());
                        Cur::O(oe)
                    }
                    (Cur::O(mut oe), "o_key_mut") => {
                        seto!("k", oe.key_mut().k());
                        seto!("kid", oe.key_mut().id());
                        Cur::O(oe)
                    }
                    (Cur::O(oe), "o_get") => {
                        seto!("v", oe.get().v());
                        seto!("vid", oe.get().id());
                        Cur::O(oe)
                    }
                    (Cur::O(mut oe), "o_get_mut") => {
                        {
                            let r = oe.get_mut();
                            if let Some(w) = w {
                                r.set(w)
                            }
                        }
                        seto!("v", oe.get().v());
                        seto!("vid", oe.get().id());
                        Cur::O(oe)
                    }
                    (Cur::O(mut oe), "o_get_key_value") => {
                        {
                            let (k, v) = oe.get_key_value();
                            seto!("k", k.k());
                            seto!("kid", k.id());
                            seto!("v", v.v());
                            seto!("vid", v.id());
                        }
                        Cur::O(oe)
                    }
                    (Cur::O(mut oe), "o_get_key_value_mut") => {
                        {
                            let (k, v) = oe.get_key_value_mut();
                            if let Some(w) = w {
                                v.set(w)
                            }
                            seto!("k", k.k());
                            seto!("kid", k.id());
                            seto!("v", v.v());
                            seto!("vid", v.id());
                        }
                        Cur::O(oe)
                    }
                    (Cur::O(oe), "o_into_mut") => {
                        let (k, v) = oe.into_key_value();
                        Cur::R(k, v)
                    }
                    (Cur::O(oe), "o_into_key_value") => {
                        let (k, v) = oe.into_key_value();
                        Cur::R(k, v)
                    }
                    (Cur::O(mut oe), "o_insert") => {
                        let old = oe.insert(objs[i].1.take().unwrap());
                        seto!("rv", old.v());
                        seto!("rvid", old.id());
                        q!(held.push((None, Some(old))));
                        Cur::O(oe)
                    }
                    (Cur::O(mut oe), "o_insert_key") => {
                        let old = oe.insert_key(objs[i].0.take().unwrap());
                        seto!("rk", old.k());
                        seto!("rkid", old.id());
                        q!(held.push((Some(old), None)));
                        Cur::O(oe)
                    }
                    (Cur::O(oe), "o_remove") => {
                        let old = oe.remove();
                        seto!("rv", old.v());
                        seto!("rvid", old.id());
                        q!(held.push((None, Some(old))));
                        Cur::Done
                    }
                    (Cur::O(oe), "o_remove_entry") => {
                        let (k, old) = oe.remove_entry();
                        seto!("rk", k.k());
                        seto!("rkid", k.id());
                        seto!("rv", old.v());
                        seto!("rvid", old.id());
                        q!(held.push((Some(k), Some(old))));
                        Cur::Done
                    }
                    (Cur::O(oe), "o_replace_entry_with") => Cur::E(oe.replace_entry_with(|k, mut v| {
                        tick(CLOSURE, k.k());
                        match some {
                            Some(nv) => {
                                v.set(nv);
                                Some(v)
                            }
                            None => None,
                        }
                    })),
                    (Cur::Va(ve), "v_insert") => {
                        let (k, v) = (objs[i].0.take().unwrap(), objs[i].1.take().unwrap());
                        let (rk, rv) = ve.insert(k, v);
                        Cur::R(rk, rv)
                    }
                    (Cur::Va(ve), "v_insert_hashed") => {
                        let (k, v) = (objs[i].0.take().unwrap(), objs[i].1.take().unwrap());
                        let (rk, rv) = ve.insert_hashed_nocheck(hash, k, v);
                        Cur::R(rk, rv)
                    }
                    (Cur::Va(ve), "v_insert_with_hasher") => {
                        let (k, v) = (objs[i].0.take().unwrap(), objs[i].1.take().unwrap());
                        let hb2 = hbc.clone();
                        let (rk, rv) = ve.insert_with_hasher(hash, k, v, move |q: &K| {
                            tick(HASH, q.k());
                            hb2.hash_of(q.k())
                        });
                        Cur::R(rk, rv)
                    }
                    (Cur::R(rk, rv), "write") => {
                        if let Some(w) = w {
                            rv.set(w)
                        }
                        seto!("k", rk.k());
                        seto!("kid", rk.id());
                        seto!("v", rv.v());
                        seto!("vid", rv.id());
                        Cur::R(rk, rv)
                    }
                    (Cur::R(rk, rv), "read") => {
                        seto!("k", rk.k());
                        seto!("kid", rk.id());
                        seto!("v", rv.v());
                        seto!("vid", rv.id());
                        Cur::R(rk, rv)
                    }
                    (c, _) => {
                        seto!("na", 1);
                        c
                    }
                };
                q!(obs.push(o));
            }
            drop(cur);
            held
        });
        let unused: Vec<Value> = objs
            .iter()
            .enumerate()
            .filter(|(_, v)| v.0.is_some() || v.1.is_some())
            .map(|(i, _)| json!(i + 1))
            .collect();
        drop(objs);
        drop(held);
        self.finish(
            op,
            &meta,
            json!({"t":"unit"}),
            vec![("ids", Value::Array(ids)), ("obs", Value::Array(obs)), ("unused", Value::Array(unused))],
        )
    }
}

/// `Extend<(&K, &V)>` (only exists for Copy keys and values): reached through `Any` from the generic driver.
fn extend_map_by_ref<K: KeyT, V: ValT>(map: &mut griddle::HashMap<K, V, HB>, objs: &Vec<(K, V)>, hint: usize) -> bool {
    use std::any::Any;
    macro_rules! try_ty {
        ($k:ty, $v:ty) => {
            if let Some(m) = (map as &mut dyn Any).downcast_mut::<griddle::HashMap<$k, $v, HB>>() {
                let o = (objs as &dyn Any).downcast_ref::<Vec<($k, $v)>>().unwrap();
                m.extend(Hinted { it: o.iter().map(|(k, v)| (k, v)), hint });
                return true;
            }
        };
    }
    try_ty!(PK, PV);
    try_ty!(FK, FV);
    false
}
/// `Extend<&T>` for sets of Copy elements.
fn extend_set_by_ref<K: KeyT>(set: &mut griddle::HashSet<K, HB>, objs: &Vec<K>, hint: usize) -> bool {
    use std::any::Any;
    macro_rules! try_ty {
        ($k:ty) => {
            if let Some(m) = (set as &mut dyn Any).downcast_mut::<griddle::HashSet<$k, HB>>() {
                let o = (objs as &dyn Any).downcast_ref::<Vec<$k>>().unwrap();
                m.extend(Hinted { it: o.iter(), hint });
                return true;
            }
        };
    }
    try_ty!(PK);
    try_ty!(FK);
    false
}

/// An iterator wrapper with a chosen lower size hint.
pub struct Hinted<I> {
    pub it: I,
    pub hint: usize,
}
impl<I: Iterator> Iterator for Hinted<I> {
    type Item = I::Item;
    fn next(&mut self) -> Option<I::Item> {
        self.it.next()
    }
    fn size_hint(&self) -> (usize, Option<usize>) {
        (self.hint, None)
    }
}

pub trait CloneMeta<T> {
    fn clone_meta(self) -> (Option<()>, Meta);
}
impl<T> CloneMeta<T> for (Option<T>, Meta) {
    /// drops the payload (outside the window) and keeps the measurements
    fn clone_meta(self) -> (Option<()>, Meta) {
        let (r, m) = self;
        let ok = r.is_some();
        drop(r);
        (if ok { Some(()) } else { None }, m)
    }
}

//! Steered random operation generator: chooses the next operation from the *observed* structural
//! state (through the hook) so that runs spend their time in the interesting resize phases.

use crate::elem::*;
use crate::world::*;
use rand::rngs::SmallRng;
use rand::seq::SliceRandom;
use rand::Rng;
use serde_json::{json, Value};

pub struct GenCfg {
    pub nkeys: u32,
    pub set: bool,
    pub two: bool,
    pub hm: u8,
    pub limits: bool,
    pub zst: bool,
    pub par: bool,
    pub serde: bool,
    /// entry-focused runs: most calls while a resize is pending go through entry / raw-entry handles
    pub entry: bool,
}

fn pick<T: Copy>(rng: &mut SmallRng, v: &[T]) -> Option<T> {
    v.choose(rng).copied()
}

pub fn usize_near(rng: &mut SmallRng, len: usize) -> Value {
    let d = rng.gen_range(0..(len as u64 + 2 * ((len as u64 + 7) / 8) + 3));
    match rng.gen_range(0..5) {
        0 => json!({"max_minus": d}),
        1 => json!({"imax_minus": d}),
        2 => json!({"imax_plus": d}),
        3 => json!({"eighth_minus": d}),
        _ => json!({"eighth_plus": d}),
    }
}

pub struct Gen {
    pub cfg: GenCfg,
    pub rng: SmallRng,
    /// the previous operation promised room (with_capacity / reserve / try_reserve): take it at its word next
    pub promised: bool,
}

impl Gen {
    fn key_absent<K: KeyT, V: ValT>(&mut self, w: &World<K, V>, s: usize) -> u32 {
        if self.cfg.zst {
            return 0;
        }
        let (a, b) = w.keys_by_table(s);
        for _ in 0..64 {
            let k = self.rng.gen_range(1..=self.cfg.nkeys);
            if !a.contains(&k) && !b.contains(&k) {
                return k;
            }
        }
        self.rng.gen_range(1..=self.cfg.nkeys)
    }

    /// class: 0 absent, 1 main, 2 old; falls back when the class is empty
    fn key_of<K: KeyT, V: ValT>(&mut self, w: &World<K, V>, s: usize, class: u32) -> u32 {
        if self.cfg.zst {
            return 0;
        }
        let (a, b) = w.keys_by_table(s);
        match class {
            1 => pick(&mut self.rng, &a).unwrap_or_else(|| self.key_absent(w, s)),
            2 => {
                // within the old table the position relative to the move cursor matters: the very
                // next element to be carried, the last one, or any
                let c = w.cursor_keys(s);
                let r = self.rng.gen_range(0..100);
                if !c.is_empty() && r < 40 {
                    c[0]
                } else if !c.is_empty() && r < 55 {
                    c[c.len() - 1]
                } else {
                    pick(&mut self.rng, &b)
                        .or_else(|| pick(&mut self.rng, &a))
                        .unwrap_or_else(|| self.key_absent(w, s))
                }
            }
            _ => self.key_absent(w, s),
        }
    }
    fn any_key<K: KeyT, V: ValT>(&mut self, w: &World<K, V>, s: usize) -> u32 {
        let st = w.vstate(s).unwrap();
        let c = if st.split && self.rng.gen_bool(0.5) {
            2
        } else {
            self.rng.gen_range(0..3)
        };
        self.key_of(w, s, c)
    }
    /// Probe = C04's sentence executed; the room is filled through one of the inserting APIs
    fn probe_op(&mut self, s: usize) -> Value {
        let via = if self.cfg.set {
            *["insert", "insert", "get_or_insert"].choose(&mut self.rng).unwrap()
        } else {
            *["insert", "insert", "entry", "raw", "mixed"].choose(&mut self.rng).unwrap()
        };
        json!({"op":"Probe","s":s,"via":via})
    }
    fn val(&mut self) -> u32 {
        if self.cfg.zst {
            0
        } else {
            self.rng.gen_range(0..10)
        }
    }
    fn addv(&mut self) -> u32 {
        if self.cfg.zst {
            0
        } else {
            self.rng.gen_range(1..5)
        }
    }

    fn pred<K: KeyT, V: ValT>(&mut self, w: &World<K, V>, s: usize) -> Value {
        let (a, b) = w.keys_by_table(s);
        match self.rng.gen_range(0..8) {
            0 => json!({"keys": a}),           // exactly the main-table elements
            1 => json!({"keys": b}),           // exactly the old-table elements
            2 => json!({"all":1}),
            3 => json!({"none":1}),
            4 => {
                // all of old but one / random subset
                let mut ks: Vec<u32> = a.iter().chain(b.iter()).copied().filter(|_| self.rng.gen_bool(0.5)).collect();
                ks.sort();
                json!({"keys": ks})
            }
            5 => json!({"mod": self.rng.gen_range(2..4), "rem": self.rng.gen_range(0..2)}),
            6 => json!({"vmod": 2, "rem": self.rng.gen_range(0..2)}),
            _ => {
                let mut ks = b.clone();
                if !ks.is_empty() {
                    let i = self.rng.gen_range(0..ks.len());
                    ks.remove(i);
                }
                ks.extend(a.iter().copied().filter(|_| self.rng.gen_bool(0.3)));
                json!({"keys": ks})
            }
        }
    }

    fn entry_chain(&mut self) -> Vec<Value> {
        let mut c = Vec::new();
        let n_pre = self.rng.gen_range(0..3);
        for _ in 0..n_pre {
            match self.rng.gen_range(0..4) {
                0 => c.push(json!({"m":"key"})),
                1 => c.push(json!({"m":"and_modify","add": self.addv()})),
                2 => {
                    if self.rng.gen_bool(0.5) {
                        c.push(json!({"m":"and_replace_entry_with","some": self.val()}))
                    } else {
                        c.push(json!({"m":"and_replace_entry_with"}))
                    }
                }
                _ => {}
            }
        }
        match self.rng.gen_range(0..7) {
            6 => {
                c.push(json!({"m":"or_default"}));
                c.push(json!({"m": if self.rng.gen_bool(0.5) { "read" } else { "write" },"w": self.val()}));
            }
            0 => {
                c.push(json!({"m":"or_insert","v": self.val()}));
                c.push(json!({"m":"write","w": self.val()}));
            }
            1 => {
                c.push(json!({"m":"or_insert_with","v": self.val()}));
                c.push(json!({"m":"read"}));
            }
            2 => {
                c.push(json!({"m":"or_insert_with_key","v": self.val()}));
                c.push(json!({"m":"write","w": self.val()}));
            }
            3 => {
                c.push(json!({"m":"insert","v": self.val()}));
                self.occ_tail(&mut c, false);
            }
            _ => {
                c.push(json!({"m":"match"}));
                // both branches are listed; the inapplicable ones are skipped at run time
                self.occ_tail(&mut c, true);
                match self.rng.gen_range(0..3) {
                    0 => c.push(json!({"m":"v_key"})),
                    1 => c.push(json!({"m":"v_into_key"})),
                    _ => {}
                }
                c.push(json!({"m":"v_insert","v": self.val()}));
                c.push(json!({"m":"write","w": self.val()}));
            }
        }
        c
    }
    fn occ_tail(&mut self, c: &mut Vec<Value>, owns_key: bool) {
        for _ in 0..self.rng.gen_range(0..3) {
            match self.rng.gen_range(0..4) {
                0 => c.push(json!({"m":"o_key"})),
                1 => c.push(json!({"m":"o_get"})),
                2 => c.push(json!({"m":"o_get_mut","w": self.val()})),
                _ => c.push(json!({"m":"o_insert","v": self.val()})),
            }
        }
        let mut t = self.rng.gen_range(0..8);
        if !owns_key && (t == 3 || t == 4) {
            t = 7;
        }
        match t {
            0 => {
                c.push(json!({"m":"o_into_mut"}));
                c.push(json!({"m":"write","w": self.val()}));
            }
            1 => c.push(json!({"m":"o_remove"})),
            2 => c.push(json!({"m":"o_remove_entry"})),
            3 => c.push(json!({"m":"o_replace_entry","v": self.val()})),
            4 => c.push(json!({"m":"o_replace_key"})),
            5 => {
                c.push(json!({"m":"o_replace_entry_with","some": self.val()}));
                c.push(json!({"m":"match"}));
                c.push(json!({"m":"o_get"}));
            }
            6 => {
                c.push(json!({"m":"o_replace_entry_with"}));
                c.push(json!({"m":"match"}));
                c.push(json!({"m":"v_insert","v": self.val()}));
                c.push(json!({"m":"write","w": self.val()}));
            }
            _ => {}
        }
    }
    fn raw_chain(&mut self) -> Vec<Value> {
        let mut c = Vec::new();
        for _ in 0..self.rng.gen_range(0..2) {
            match self.rng.gen_range(0..3) {
                0 => c.push(json!({"m":"and_modify","add": self.addv()})),
                1 => {
                    if self.rng.gen_bool(0.5) {
                        c.push(json!({"m":"and_replace_entry_with","some": self.val()}))
                    } else {
                        c.push(json!({"m":"and_replace_entry_with"}))
                    }
                }
                _ => {}
            }
        }
        match self.rng.gen_range(0..5) {
            0 => {
                c.push(json!({"m":"or_insert","v": self.val()}));
                c.push(json!({"m":"write","w": self.val()}));
            }
            1 => {
                c.push(json!({"m":"or_insert_with","v": self.val()}));
                c.push(json!({"m":"read"}));
            }
            2 => {
                c.push(json!({"m":"insert","v": self.val()}));
                c.push(json!({"m":"o_get_key_value"}));
                if self.rng.gen_bool(0.5) {
                    c.push(json!({"m":"o_get_mut","w": self.val()}));
                }
            }
            _ => {
                c.push(json!({"m":"match"}));
                for _ in 0..self.rng.gen_range(0..3) {
                    match self.rng.gen_range(0..6) {
                        0 => c.push(json!({"m": if self.rng.gen_bool(0.5) { "o_key" } else { "o_key_mut" }})),
                        1 => c.push(json!({"m":"o_get"})),
                        2 => c.push(json!({"m":"o_get_mut","w": self.val()})),
                        3 => c.push(json!({"m":"o_insert","v": self.val()})),
                        4 => c.push(json!({"m":"o_insert_key"})),
                        _ => c.push(json!({"m":"o_get_key_value_mut","w": self.val()})),
                    }
                }
                match self.rng.gen_range(0..6) {
                    0 => {
                        c.push(json!({"m":"o_into_key_value"}));
                        c.push(json!({"m":"write","w": self.val()}));
                    }
                    1 => c.push(json!({"m":"o_remove"})),
                    2 => c.push(json!({"m":"o_remove_entry"})),
                    3 => {
                        c.push(json!({"m":"o_replace_entry_with","some": self.val()}));
                        c.push(json!({"m":"match"}));
                        c.push(json!({"m":"o_get"}));
                    }
                    4 => {
                        c.push(json!({"m":"o_replace_entry_with"}));
                        c.push(json!({"m":"match"}));
                    }
                    _ => {}
                }
                match self.rng.gen_range(0..3) {
                    0 => c.push(json!({"m":"v_insert","v": self.val()})),
                    1 => c.push(json!({"m":"v_insert_hashed","v": self.val()})),
                    _ => c.push(json!({"m":"v_insert_with_hasher","v": self.val()})),
                }
                c.push(json!({"m":"write","w": self.val()}));
            }
        }
        c
    }

    /// The next operation, chosen from the observed state.
    pub fn next_op<K: KeyT, V: ValT>(&mut self, w: &World<K, V>) -> Value {
        let nslots = if self.cfg.two { 2 } else { 1 };
        let s = if self.cfg.two && self.rng.gen_bool(0.35) { 2 } else { 1 };
        let ty = if self.cfg.set { "set" } else { "map" };
        if !w.alive(s) {
            let cap = *[0usize, 0, 1, 3, 4, 7, 8, 14, 15, 28, 29, 56].choose(&mut self.rng).unwrap();
            if self.rng.gen_bool(0.15) {
                let n = self.rng.gen_range(0..12);
                let items: Vec<Value> = (0..n).map(|_| json!([if self.cfg.zst { 0 } else { self.rng.gen_range(1..=self.cfg.nkeys) }, self.val()])).collect();
                let hint = if self.rng.gen_bool(0.7) { n } else { self.rng.gen_range(0..=n) };
                return json!({"op":"FromIter","s":s,"ty":ty,"hm":self.cfg.hm,"items":items,"hint":hint});
            }
            let hs = if self.cfg.two { self.rng.gen_range(0..3u64) } else { 0 };
            self.promised = cap > 0;
            return json!({"op":"New","s":s,"ty":ty,"cap":cap,"hm":self.cfg.hm,"hs":hs});
        }
        let st = w.vstate(s).unwrap();
        let split = st.split;
        let len = st.main_len + st.old_len;
        // a rare phase that several whole-table operations get wrong: every element still in the old
        // table, the main table empty (right after a reserve that started a resize, or after the main
        // table was emptied by removals). Make the whole-table operations likely there.
        if split && st.main_len == 0 && st.old_len > 0 && self.rng.gen_bool(0.55) {
            let d = 3 - s;
            let two = nslots == 2 && w.alive(d);
            if self.cfg.par && self.rng.gen_bool(0.5) {
                return self.par_op(w, s, nslots);
            }
            if self.cfg.serde && self.rng.gen_bool(0.5) {
                let mut o = json!({"op":"Serde","s":s,"d":d,"hm":self.cfg.hm});
                if self.cfg.set && w.alive(d) && self.rng.gen_bool(0.5) {
                    o["inplace"] = json!(1);
                }
                return o;
            }
            let pick = self.rng.gen_range(0..15);
            let pred = if self.rng.gen_bool(0.5) { json!({"none":1}) } else { self.pred(w, s) };
            return match pick {
                0 | 1 => json!({"op":"DrainFilter","s":s,"pred":pred,"end":"exhaust"}),
                2 => json!({"op":"DrainFilter","s":s,"pred":pred,"end":"drop","take":1}),
                3 => json!({"op":"Retain","s":s,"pred":{"all":1}}),
                4 => json!({"op":"Retain","s":s,"pred": self.pred(w, s)}),
                5 => json!({"op":"Clear","s":s}),
                6 => json!({"op":"Iter","s":s,"kind":"iter","extra":1}),
                7 => json!({"op":"Drain","s":s,"end":"drop","take": self.rng.gen_range(0..=len),"extra":1}),
                8 if two => json!({"op":"CloneFrom","s":s,"d":d}),
                9 if two => json!({"op":"Eq","s":s,"d":d}),
                8 | 9 => json!({"op":"Clone","s":s,"d":d}),
                10 => json!({"op":"ShrinkToFit","s":s}),
                // read-only calls must find everything although the main table is empty
                12 | 13 if !self.cfg.set => {
                    let kinds = ["get", "contains_key", "get_key_value", "get_mut", "index", "raw_key"];
                    json!({"op":"Get","s":s,"k": self.any_key(w, s),"kind": *kinds.choose(&mut self.rng).unwrap()})
                }
                12 | 13 => json!({"op": *["SContains", "SGet"].choose(&mut self.rng).unwrap(),"s":s,"k": self.any_key(w, s)}),
                14 => json!({"op":"Debug","s":s}),
                _ => json!({"op":"Extend","s":s,"items":[[self.key_absent(w, s), self.val()]],"hint":1}),
            };
        }
        // another rare phase (the state of defect D1): the old table is still attached but retain /
        // replace_entry_with(None) took its last element. Whole-table and capacity calls must cope with it.
        if split && st.old_len == 0 && self.rng.gen_bool(0.6) {
            let d = 3 - s;
            let two = nslots == 2 && w.alive(d);
            let free = st.main_cap.saturating_sub(st.main_len);
            let n = free + self.rng.gen_range(0..3usize);
            if self.cfg.par && self.rng.gen_bool(0.4) {
                return self.par_op(w, s, nslots);
            }
            if self.cfg.serde && self.rng.gen_bool(0.4) {
                return json!({"op":"Serde","s":s,"d":d,"hm":self.cfg.hm});
            }
            // the consuming iterators look at the (empty) old table first (seed S52), and so may anything
            // else that walks both tables
            if self.rng.gen_bool(0.35) {
                let kinds: &[&str] = if self.cfg.set { &["iter"] } else { &["iter", "iter_mut", "keys", "values", "values_mut"] };
                return match self.rng.gen_range(0..8) {
                    0 => json!({"op":"Drain","s":s,"end":"drop","take": self.rng.gen_range(0..=len),"extra":2}),
                    1 => json!({"op":"Drain","s":s,"end":"exhaust","extra":2}),
                    2 | 3 => json!({"op":"IntoIter","s":s,"extra":2,"take": self.rng.gen_range(0..=len + 1)}),
                    4 => json!({"op":"Debug","s":s}),
                    5 if two => json!({"op":"Eq","s":s,"d":d}),
                    6 => json!({"op":"Clear","s":s}),
                    _ => json!({"op":"Iter","s":s,"kind": *kinds.choose(&mut self.rng).unwrap(),"extra":1}),
                };
            }
            return match self.rng.gen_range(0..12) {
                0 | 1 => json!({"op":"Reserve","s":s,"n":n}),
                2 => json!({"op":"TryReserve","s":s,"n":n}),
                3 => json!({"op":"ShrinkToFit","s":s}),
                4 => json!({"op":"ShrinkTo","s":s,"n": len + self.rng.gen_range(0..3usize)}),
                5 if two => json!({"op":"CloneFrom","s":s,"d":d}),
                6 if two => json!({"op":"CloneFrom","s":d,"d":s}),
                5 | 6 => json!({"op":"Clone","s":s,"d":d}),
                7 => json!({"op":"Iter","s":s,"kind":"iter","extra":1}),
                8 if !self.cfg.zst => self.probe_op(s),
                9 => json!({"op":"Retain","s":s,"pred": self.pred(w, s)}),
                10 => json!({"op":"DrainFilter","s":s,"pred": self.pred(w, s),"end":"exhaust"}),
                _ => json!({"op":"Extend","s":s,"items":[[self.key_absent(w, s), self.val()]],"hint": n}),
            };
        }
        // C10: "n insertions without reallocation" after with_capacity(n) / reserve(n): fill the promised room
        if std::mem::replace(&mut self.promised, false) && !self.cfg.zst && st.main_cap - st.main_len < 300 && self.rng.gen_bool(0.25) {
            return self.probe_op(s);
        }
        // rayon / serde suites: "in any resize phase" -- start a resize now and then (a reserve beyond the
        // free room parks every element in the old table), so that the traversals below mostly see two tables
        if (self.cfg.par || self.cfg.serde) && !split && len >= 2 && !self.cfg.zst && self.rng.gen_bool(0.12) {
            let free = st.main_cap.saturating_sub(st.main_len);
            return json!({"op":"Reserve","s":s,"n": free + self.rng.gen_range(0..3usize)});
        }
        if self.cfg.par && self.rng.gen_bool(if split { 0.6 } else { 0.15 }) {
            return self.par_op(w, s, nslots);
        }
        if self.cfg.serde && self.rng.gen_bool(if split { 0.5 } else { 0.12 }) {
            let d = 3 - s;
            let mut o = json!({"op":"Serde","s":s,"d":d,"hm":self.cfg.hm});
            if self.cfg.set && w.alive(d) && self.rng.gen_bool(0.5) {
                o["inplace"] = json!(1);
            }
            return o;
        }
        if (self.cfg.par || self.cfg.serde) && self.rng.gen_bool(0.05) {
            return json!({"op":"Debug","s":s});
        }
        let r = self.rng.gen_range(0..100);
        // when split, bias towards calls that do not move elements, to stay mid-resize
        let adding_cut = if split { 22 } else { 50 };
        if self.cfg.set {
            return self.next_set_op(w, s, nslots, r, adding_cut, split, len);
        }
        if r < adding_cut {
            // key-adding / overwriting calls
            let c = self.rng.gen_range(0..10);
            let k = if c < 6 { self.key_absent(w, s) } else if c < 8 { self.key_of(w, s, 2) } else { self.key_of(w, s, 1) };
            return json!({"op":"Insert","s":s,"k":k,"v":self.val()});
        }
        // clone / clone_from / == are most interesting while the source (or the destination) is split
        if nslots == 2 && self.rng.gen_bool(if split { 0.22 } else { 0.06 }) {
            let d = 3 - s;
            return match self.rng.gen_range(0..5) {
                0 => json!({"op":"Clone","s":s,"d":d}),
                1 | 2 if w.alive(d) => json!({"op":"CloneFrom","s":s,"d":d}),
                3 if w.alive(d) => json!({"op":"CloneFrom","s":d,"d":s}),
                _ if w.alive(d) => json!({"op":"Eq","s":s,"d":d}),
                _ => json!({"op":"Clone","s":s,"d":d}),
            };
        }
        if self.cfg.entry && !self.cfg.set && split && self.rng.gen_bool(0.6) {
            let k = if self.rng.gen_bool(0.8) { self.key_of(w, s, 2) } else { self.any_key(w, s) };
            return if self.rng.gen_bool(0.65) {
                json!({"op":"Entry","s":s,"k":k,"chain": self.entry_chain()})
            } else {
                let via = *["key", "hashed", "hash"].choose(&mut self.rng).unwrap();
                json!({"op":"RawEntry","s":s,"k":k,"via":via,"chain": self.raw_chain()})
            };
        }
        // now and then: execute C04's sentence (fill the map up to its capacity with unseen keys)
        if !self.cfg.zst && len + 40 < self.cfg.nkeys as usize * 3 && self.rng.gen_bool(if split { 0.06 } else { 0.02 }) {
            return self.probe_op(s);
        }
        let r2 = self.rng.gen_range(0..100);
        match r2 {
            0..=13 => {
                let k = self.any_key(w, s);
                let kinds = ["get", "contains_key", "get_key_value", "get_mut", "get_key_value_mut", "raw_key", "raw_key_hashed", "raw_hash", "index"];
                let kind = *kinds.choose(&mut self.rng).unwrap();
                let mut o = json!({"op":"Get","s":s,"k":k,"kind":kind});
                if kind.contains("mut") && self.rng.gen_bool(0.7) {
                    o["w"] = json!(self.val());
                }
                o
            }
            14..=25 => {
                let c = if split { [2, 2, 1, 0][self.rng.gen_range(0..4)] } else { self.rng.gen_range(0..2) };
                let k = self.key_of(w, s, c);
                if self.rng.gen_bool(0.5) {
                    json!({"op":"Remove","s":s,"k":k})
                } else {
                    json!({"op":"RemoveEntry","s":s,"k":k})
                }
            }
            26..=43 => {
                let k = self.any_key(w, s);
                json!({"op":"Entry","s":s,"k":k,"chain": self.entry_chain()})
            }
            44..=55 => {
                let k = self.any_key(w, s);
                let via = *["key", "hashed", "hash"].choose(&mut self.rng).unwrap();
                json!({"op":"RawEntry","s":s,"k":k,"via":via,"chain": self.raw_chain()})
            }
            56..=60 => {
                let mut o = json!({"op":"Retain","s":s,"pred": self.pred(w, s)});
                if self.rng.gen_bool(0.3) {
                    o["add"] = json!(self.addv());
                }
                o
            }
            61..=65 => {
                let end = *["exhaust", "drop", "forget"].choose(&mut self.rng).unwrap();
                let mut o = json!({"op":"DrainFilter","s":s,"pred": self.pred(w, s),"end":end});
                if end != "exhaust" {
                    o["take"] = json!(self.rng.gen_range(0..=len.min(6)));
                }
                if self.rng.gen_bool(0.3) {
                    o["add"] = json!(self.addv());
                }
                o
            }
            66..=73 => {
                let kinds = ["iter", "keys", "values", "iter_mut", "values_mut", "ref_into_iter", "mut_into_iter", "zip"];
                let kind = *kinds.choose(&mut self.rng).unwrap();
                if kind == "zip" {
                    return json!({"op":"Iter","s":s,"kind":"zip"});
                }
                let mut o = json!({"op":"Iter","s":s,"kind":kind,"extra":2});
                if kind.contains("mut") && self.rng.gen_bool(0.7) {
                    o["add"] = json!(self.addv());
                }
                if self.rng.gen_bool(0.3) {
                    o["take"] = json!(self.rng.gen_range(0..=len));
                }
                if self.rng.gen_bool(0.4) {
                    o["clone_at"] = json!(self.rng.gen_range(0..=len));
                }
                o
            }
            74..=80 => {
                // reserve / try_reserve with boundary arguments
                let free = st.main_cap.saturating_sub(st.main_len).saturating_sub(st.old_len);
                let cands = [0usize, 1, free.saturating_sub(1), free, free + 1, len, st.main_cap, 2 * st.main_cap + 1, free + 2, 3];
                let n = *cands.choose(&mut self.rng).unwrap();
                if self.cfg.limits && self.rng.gen_bool(0.3) {
                    let nm = if self.rng.gen_bool(0.5) { "TryReserve" } else { "Reserve" };
                    json!({"op":nm,"s":s,"n": usize_near(&mut self.rng, len)})
                } else if self.rng.gen_bool(0.5) {
                    self.promised = true;
                    json!({"op":"Reserve","s":s,"n":n})
                } else {
                    self.promised = true;
                    json!({"op":"TryReserve","s":s,"n":n})
                }
            }
            81..=87 => {
                if self.rng.gen_bool(0.4) {
                    json!({"op":"ShrinkToFit","s":s})
                } else {
                    let need = len + (st.old_len + 7) / 8;
                    let cands = [0usize, 1, len.saturating_sub(1), len, len + 1, need, need + 1, st.main_cap, st.main_cap + 1, st.main_cap / 2];
                    let n = *cands.choose(&mut self.rng).unwrap();
                    if self.cfg.limits && self.rng.gen_bool(0.15) {
                        json!({"op":"ShrinkTo","s":s,"n": usize_near(&mut self.rng, len)})
                    } else {
                        json!({"op":"ShrinkTo","s":s,"n":n})
                    }
                }
            }
            88..=90 => {
                let n = self.rng.gen_range(0..10);
                let items: Vec<Value> = (0..n)
                    .map(|_| {
                        let k = if self.rng.gen_bool(0.6) { self.key_absent(w, s) } else { self.any_key(w, s) };
                        json!([k, self.val()])
                    })
                    .collect();
                let hint = if self.rng.gen_bool(0.7) { n } else { self.rng.gen_range(0..=n + 3) };
                if self.cfg.limits && self.rng.gen_bool(0.4) {
                    json!({"op":"Extend","s":s,"items":items,"hint": usize_near(&mut self.rng, len)})
                } else {
                    json!({"op":"Extend","s":s,"items":items,"hint":hint})
                }
            }
            91 => json!({"op":"Clear","s":s}),
            92 => {
                let end = *["exhaust", "drop", "forget"].choose(&mut self.rng).unwrap();
                let mut o = json!({"op":"Drain","s":s,"end":end,"extra":2});
                if end != "exhaust" {
                    o["take"] = json!(self.rng.gen_range(0..=len));
                }
                o
            }
            93 => {
                let mut o = json!({"op":"IntoIter","s":s,"extra":2});
                if self.rng.gen_bool(0.6) {
                    o["take"] = json!(self.rng.gen_range(0..=len));
                }
                o
            }
            94 => json!({"op":"DropMap","s":s}),
            _ => {
                if nslots == 2 {
                    let d = 3 - s;
                    match self.rng.gen_range(0..4) {
                        0 => json!({"op":"Clone","s":s,"d":d}),
                        1 if w.alive(d) => json!({"op":"CloneFrom","s":s,"d":d}),
                        _ if w.alive(d) => json!({"op":"Eq","s":s,"d":d}),
                        _ => json!({"op":"Clone","s":s,"d":d}),
                    }
                } else {
                    let k = self.any_key(w, s);
                    json!({"op":"Get","s":s,"k":k,"kind":"get"})
                }
            }
        }
    }

    fn par_op<K: KeyT, V: ValT>(&mut self, w: &World<K, V>, s: usize, nslots: usize) -> Value {
        let threads = *[1usize, 2, 3, 4, 8, 16].choose(&mut self.rng).unwrap();
        let d = 3 - s;
        let two = nslots == 2 && w.alive(d);
        if self.cfg.set {
            let r = self.rng.gen_range(0..10);
            if two && r < 6 {
                let kinds = ["par_union", "par_intersection", "par_difference", "par_symmetric_difference", "par_is_disjoint", "par_is_subset", "par_is_superset"];
                return json!({"op":"SPar","s":s,"d":d,"threads":threads,"kind": *kinds.choose(&mut self.rng).unwrap()});
            }
            if two && r < 7 {
                return json!({"op":"ParEq","s":s,"d":d,"threads":threads});
            }
            if r < 9 {
                return json!({"op":"Par","s":s,"kind":"par_iter","threads":threads});
            }
        } else {
            let r = self.rng.gen_range(0..10);
            if r < 7 {
                let kinds = ["par_iter", "par_keys", "par_values", "par_iter_mut", "par_values_mut", "ref_into_par", "mut_into_par"];
                let kind = *kinds.choose(&mut self.rng).unwrap();
                let mut o = json!({"op":"Par","s":s,"kind":kind,"threads":threads});
                if kind.contains("mut") {
                    o["add"] = json!(self.addv());
                }
                return o;
            }
            if two && r < 8 {
                return json!({"op":"ParEq","s":s,"d":d,"threads":threads});
            }
        }
        let n = self.rng.gen_range(0..12);
        let items: Vec<Value> = (0..n)
            .map(|_| {
                let k = if self.rng.gen_bool(0.6) { self.key_absent(w, s) } else { self.any_key(w, s) };
                json!([k, self.val()])
            })
            .collect();
        // duplicates of the first key later in the sequence (the later value must win), and an
        // unbalanced source (head.chain(tail)) so that rayon's split tree is lopsided
        let mut items = items;
        if !items.is_empty() && !self.cfg.zst && self.rng.gen_bool(0.6) {
            let k0 = items[0][0].clone();
            let pos = self.rng.gen_range(1..=items.len());
            items.insert(pos, json!([k0, (items[0][1].as_u64().unwrap_or(0) + 1 + self.rng.gen_range(0..5)) % 10]));
        }
        let mut o = json!({"op":"ParExtend","s":s,"items":items,"threads":threads});
        if self.rng.gen_bool(0.5) {
            o["chain"] = json!(1);
        }
        o
    }

    fn next_set_op<K: KeyT, V: ValT>(
        &mut self,
        w: &World<K, V>,
        s: usize,
        nslots: usize,
        r: u32,
        adding_cut: u32,
        split: bool,
        len: usize,
    ) -> Value {
        let st = w.vstate(s).unwrap();
        if r < adding_cut {
            let c = self.rng.gen_range(0..10);
            let k = if c < 6 { self.key_absent(w, s) } else if c < 8 { self.key_of(w, s, 2) } else { self.key_of(w, s, 1) };
            let ops = ["SInsert", "SInsert", "SReplace", "SGetOrInsert", "SGetOrInsertOwned", "SGetOrInsertWith"];
            return json!({"op": *ops.choose(&mut self.rng).unwrap(),"s":s,"k":k});
        }
        let r2 = self.rng.gen_range(0..100);
        match r2 {
            0..=14 => {
                let k = self.any_key(w, s);
                let ops = ["SContains", "SGet"];
                json!({"op": *ops.choose(&mut self.rng).unwrap(),"s":s,"k":k})
            }
            15..=30 => {
                let c = if split { [2, 2, 1, 0][self.rng.gen_range(0..4)] } else { self.rng.gen_range(0..2) };
                let k = self.key_of(w, s, c);
                let ops = ["SRemove", "STake"];
                json!({"op": *ops.choose(&mut self.rng).unwrap(),"s":s,"k":k})
            }
            31..=38 => json!({"op":"Retain","s":s,"pred": self.pred(w, s)}),
            39..=46 => {
                let end = *["exhaust", "drop", "forget"].choose(&mut self.rng).unwrap();
                let mut o = json!({"op":"DrainFilter","s":s,"pred": self.pred(w, s),"end":end});
                if end != "exhaust" {
                    o["take"] = json!(self.rng.gen_range(0..=len.min(6)));
                }
                o
            }
            47..=54 => {
                let mut o = json!({"op":"Iter","s":s,"kind":"iter","extra":2});
                if self.rng.gen_bool(0.4) {
                    o["clone_at"] = json!(self.rng.gen_range(0..=len));
                }
                o
            }
            55..=60 => {
                let free = st.main_cap.saturating_sub(st.main_len).saturating_sub(st.old_len);
                let cands = [0usize, 1, free.saturating_sub(1), free, free + 1, len, 2 * st.main_cap + 1];
                let n = *cands.choose(&mut self.rng).unwrap();
                if self.rng.gen_bool(0.5) {
                    json!({"op":"Reserve","s":s,"n":n})
                } else {
                    json!({"op":"TryReserve","s":s,"n":n})
                }
            }
            61..=66 => {
                if self.rng.gen_bool(0.5) {
                    json!({"op":"ShrinkToFit","s":s})
                } else {
                    json!({"op":"ShrinkTo","s":s,"n": self.rng.gen_range(0..=len + 4)})
                }
            }
            67..=70 => {
                let n = self.rng.gen_range(0..10);
                let items: Vec<Value> = (0..n)
                    .map(|_| {
                        let k = if self.rng.gen_bool(0.6) { self.key_absent(w, s) } else { self.any_key(w, s) };
                        json!([k, 0])
                    })
                    .collect();
                json!({"op":"Extend","s":s,"items":items,"hint":n})
            }
            71 => json!({"op":"Clear","s":s}),
            72 => {
                let end = *["exhaust", "drop", "forget"].choose(&mut self.rng).unwrap();
                let mut o = json!({"op":"Drain","s":s,"end":end,"extra":2});
                if end != "exhaust" {
                    o["take"] = json!(self.rng.gen_range(0..=len));
                }
                o
            }
            73 => json!({"op":"IntoIter","s":s,"extra":2,"take": self.rng.gen_range(0..=len)}),
            74 => json!({"op":"DropMap","s":s}),
            _ => {
                let d = 3 - s;
                if nslots == 2 && w.alive(d) {
                    let kinds = [
                        "union", "intersection", "difference", "symmetric_difference", "bitor", "bitand", "bitxor", "sub",
                        "is_subset", "is_superset", "is_disjoint",
                    ];
                    match self.rng.gen_range(0..10) {
                        0 => json!({"op":"Clone","s":s,"d":d}),
                        1 => json!({"op":"CloneFrom","s":s,"d":d}),
                        2 => json!({"op":"Eq","s":s,"d":d}),
                        _ => json!({"op":"SAlg","s":s,"d":d,"hm":self.cfg.hm,"kind": *kinds.choose(&mut self.rng).unwrap()}),
                    }
                } else if nslots == 2 {
                    json!({"op":"Clone","s":s,"d":d})
                } else {
                    let k = self.any_key(w, s);
                    json!({"op":"SContains","s":s,"k":k})
                }
            }
        }
    }
}

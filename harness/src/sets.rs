//! HashSet-specific operations.

use crate::elem::*;
use crate::world::*;
use serde_json::{json, Value};

impl<K: KeyT, V: ValT> World<K, V> {
    pub fn exec_set(&mut self, op: &Value, name: &str, s: usize, fault: Option<(usize, u64)>) -> Value {
        let armf = move || {
            if let Some((k, a)) = fault {
                arm(k, a)
            }
        };
        match name {
            "SInsert" => {
                let k = K::new(u(op, "k"));
                let kid = k.id();
                let set = self.set(s);
                let (r, meta) = measure(|| {
                    armf();
                    set.insert(k)
                });
                let res = r.map(|b| json!({"t":"bool","b":b as u8})).unwrap_or(Value::Null);
                self.finish(op, &meta, res, vec![("kid", json!(kid))])
            }
            "SReplace" => {
                let k = K::new(u(op, "k"));
                let kid = k.id();
                let set = self.set(s);
                let (r, meta) = measure(|| {
                    armf();
                    set.replace(k)
                });
                let res = match &r {
                    Some(Some(k)) => some_k(k),
                    Some(None) => none(),
                    None => Value::Null,
                };
                drop(r);
                self.finish(op, &meta, res, vec![("kid", json!(kid))])
            }
            "STake" => {
                let probe = K::probe(u(op, "k"));
                let set = self.set(s);
                let (r, meta) = measure(|| {
                    armf();
                    set.take(&probe)
                });
                let res = match &r {
                    Some(Some(k)) => some_k(k),
                    Some(None) => none(),
                    None => Value::Null,
                };
                drop(r);
                self.finish(op, &meta, res, vec![])
            }
            "SRemove" | "SContains" => {
                let probe = K::probe(u(op, "k"));
                let set = self.set(s);
                let rm = name == "SRemove";
                let (r, meta) = measure(|| {
                    armf();
                    if rm {
                        set.remove(&probe)
                    } else {
                        set.contains(&probe)
                    }
                });
                let res = r.map(|b| json!({"t":"bool","b":b as u8})).unwrap_or(Value::Null);
                self.finish(op, &meta, res, vec![])
            }
            "SGet" => {
                let probe = K::probe(u(op, "k"));
                let set = self.set(s);
                let (r, meta) = measure(|| {
                    armf();
                    set.get(&probe).map(|k| (k.k(), k.id()))
                });
                let res = match r {
                    Some(Some((k, kid))) => json!({"t":"some","k":k,"kid":kid}),
                    Some(None) => none(),
                    None => Value::Null,
                };
                self.finish(op, &meta, res, vec![])
            }
            "SGetOrInsert" | "SGetOrInsertOwned" | "SGetOrInsertWith" => {
                let kk = u(op, "k");
                let k = K::new(kk);
                let kid = k.id();
                let set = self.set(s);
                let nm = name.to_string();
                let (r, meta) = measure(|| {
                    armf();
                    match nm.as_str() {
                        "SGetOrInsert" => {
                            let r = set.get_or_insert(k);
                            (r.k(), r.id(), None)
                        }
                        "SGetOrInsertOwned" => {
                            // to_owned() clones `k` (a fresh id) only when absent
                            let r = set.get_or_insert_owned(&k);
                            (r.k(), r.id(), Some(k))
                        }
                        _ => {
                            let mut kopt = Some(k);
                            let r = set.get_or_insert_with(&K::probe(kk), |_q| {
                                tick(CLOSURE, kk);
                                kopt.take().unwrap()
                            });
                            let out = (r.k(), r.id());
                            (out.0, out.1, kopt)
                        }
                    }
                });
                let res = match &r {
                    Some((k, id, _)) => json!({"t":"some","k":k,"kid":id}),
                    None => Value::Null,
                };
                drop(r);
                self.finish(op, &meta, res, vec![("kid", json!(kid))])
            }
            "SAlg" => {
                let d = u(op, "d") as usize;
                let kind = op["kind"].as_str().unwrap_or("union").to_string();
                DEFAULT_HM.store(ou(op, "hm").unwrap_or(0) as usize, std::sync::atomic::Ordering::Relaxed);
                let a = match self.slots[s].as_ref() {
                    Some(Slot::Set(x)) => x,
                    _ => panic!("not a set"),
                };
                let b = match self.slots[d].as_ref() {
                    Some(Slot::Set(x)) => x,
                    _ => panic!("not a set"),
                };
                let mut yielded: Vec<Value> = Vec::new();
                let mut hints: Vec<Value> = Vec::new();
                let (r, meta) = measure(|| {
                    armf();
                    macro_rules! lazy {
                        ($it:expr) => {{
                            let mut it = $it;
                            loop {
                                {
                                    let _q = Quiet::new();
                                    hints.push(json!([it.size_hint().0, it.size_hint().1.map_or(-1, |x| x as i64)]));
                                }
                                match it.next() {
                                    Some(k) => {
                                        let _q = Quiet::new();
                                        yielded.push(json!([k.k(), 0, k.id(), 0]));
                                    }
                                    None => break,
                                }
                            }
                            None
                        }};
                    }
                    macro_rules! owned {
                        ($e:expr) => {{
                            let r: S<K> = $e;
                            {
                                let _q = Quiet::new();
                                for k in r.iter() {
                                    yielded.push(json!([k.k(), 0, k.id(), 0]));
                                }
                            }
                            drop(r);
                            None
                        }};
                    }
                    match kind.as_str() {
                        "union" => lazy!(a.union(b)),
                        "intersection" => lazy!(a.intersection(b)),
                        "difference" => lazy!(a.difference(b)),
                        "symmetric_difference" => lazy!(a.symmetric_difference(b)),
                        "bitor" => owned!(a | b),
                        "bitand" => owned!(a & b),
                        "bitxor" => owned!(a ^ b),
                        "sub" => owned!(a - b),
                        "is_subset" => Some(a.is_subset(b)),
                        "is_superset" => Some(a.is_superset(b)),
                        "is_disjoint" => Some(a.is_disjoint(b)),
                        _ => panic!("bad set algebra kind"),
                    }
                });
                let res = match r {
                    Some(Some(b)) => json!({"t":"bool","b":b as u8}),
                    Some(None) => json!({"t":"unit"}),
                    None => Value::Null,
                };
                self.finish(
                    op,
                    &meta,
                    res,
                    vec![("yield", Value::Array(yielded)), ("hints", Value::Array(hints))],
                )
            }
            _ => panic!("unknown op {name}"),
        }
    }
}

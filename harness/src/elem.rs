//! Instrumented element types, hashers, allocator, ledger and fault fuse.
//!
//! Everything here is deterministic: the same (seed, header) gives the same layout and trace.

use std::alloc::{GlobalAlloc, Layout, System};
use std::hash::{BuildHasher, Hash, Hasher};
use std::sync::atomic::{AtomicI64, AtomicU32, AtomicU64, AtomicUsize, Ordering::Relaxed};
use std::sync::Mutex;

// ---------------------------------------------------------------------------------------------
// Counting allocator. Allocations made while QUIET > 0 (harness bookkeeping, element boxes)
// are not counted, so that what is counted inside an operation window are *table* allocations.
// ---------------------------------------------------------------------------------------------
pub struct CountingAlloc;
pub const TABLE_ALIGN: usize = if cfg!(miri) { 8 } else { 16 };
pub static QUIET: AtomicUsize = AtomicUsize::new(1); // start quiet; windows open explicitly
pub static ALLOCS: AtomicU64 = AtomicU64::new(0);
pub static DEALLOCS: AtomicU64 = AtomicU64::new(0);
pub static LIVE: AtomicI64 = AtomicI64::new(0);
pub static LIVE_BASE: AtomicI64 = AtomicI64::new(0);
/// live table allocations since the last `rebase_live()` (called when no slot is alive)
pub fn live_tables() -> i64 {
    LIVE.load(Relaxed) - LIVE_BASE.load(Relaxed)
}
pub fn rebase_live() {
    LIVE_BASE.store(LIVE.load(Relaxed), Relaxed);
}
/// Largest counted allocation in the current window (bytes)
pub static MAXALLOC: AtomicUsize = AtomicUsize::new(0);

unsafe impl GlobalAlloc for CountingAlloc {
    unsafe fn alloc(&self, l: Layout) -> *mut u8 {
        // hashbrown tables are allocated with Group::WIDTH (16) alignment; nothing else in an
        // operation window is (panic payloads, formatting buffers have smaller alignment)
        if l.align() >= TABLE_ALIGN {
            // live table allocations are tracked everywhere (slots are also dropped outside windows)
            LIVE.fetch_add(1, Relaxed);
        }
        if QUIET.load(Relaxed) == 0 && l.align() >= TABLE_ALIGN {
            ALLOCS.fetch_add(1, Relaxed);
            MAXALLOC.fetch_max(l.size(), Relaxed);
        }
        System.alloc(l)
    }
    unsafe fn dealloc(&self, p: *mut u8, l: Layout) {
        if l.align() >= TABLE_ALIGN {
            LIVE.fetch_sub(1, Relaxed);
        }
        if QUIET.load(Relaxed) == 0 && l.align() >= TABLE_ALIGN {
            DEALLOCS.fetch_add(1, Relaxed);
        }
        System.dealloc(p, l)
    }
    unsafe fn realloc(&self, p: *mut u8, l: Layout, n: usize) -> *mut u8 {
        System.realloc(p, l, n)
    }
}

/// RAII guard: harness code that may allocate inside an operation window.
pub struct Quiet;
impl Quiet {
    #[inline]
    pub fn new() -> Quiet {
        QUIET.fetch_add(1, Relaxed);
        Quiet
    }
}
impl Drop for Quiet {
    #[inline]
    fn drop(&mut self) {
        QUIET.fetch_sub(1, Relaxed);
    }
}
/// Opens a counting window (the inverse of Quiet); returned guard closes it.
pub struct Window(usize);
impl Window {
    pub fn open() -> Window {
        let q = QUIET.swap(0, Relaxed);
        Window(q)
    }
}
impl Drop for Window {
    fn drop(&mut self) {
        QUIET.store(self.0, Relaxed);
    }
}

// ---------------------------------------------------------------------------------------------
// Callback counters and the fault fuse
// ---------------------------------------------------------------------------------------------
pub const HASH: usize = 0;
pub const EQ: usize = 1;
pub const CLONE: usize = 2;
pub const CLOSURE: usize = 3;
pub static COUNTS: [AtomicU64; 4] = [
    AtomicU64::new(0),
    AtomicU64::new(0),
    AtomicU64::new(0),
    AtomicU64::new(0),
];
/// 0 = disarmed, else 1 + kind
pub static FUSE_KIND: AtomicUsize = AtomicUsize::new(0);
pub static FUSE_AT: AtomicU64 = AtomicU64::new(0);
/// key (or 0) the fused callback was working on when it fired
pub static FUSE_VICTIM: AtomicU32 = AtomicU32::new(0);
pub static FUSE_FIRED: AtomicUsize = AtomicUsize::new(0);

pub fn counts() -> [u64; 4] {
    [
        COUNTS[0].load(Relaxed),
        COUNTS[1].load(Relaxed),
        COUNTS[2].load(Relaxed),
        COUNTS[3].load(Relaxed),
    ]
}

/// Arms the fuse: the `at`-th (1-based, counted from now) callback of `kind` panics.
pub fn arm(kind: usize, at: u64) {
    FUSE_AT.store(COUNTS[kind].load(Relaxed) + at, Relaxed);
    FUSE_FIRED.store(0, Relaxed);
    FUSE_KIND.store(1 + kind, Relaxed);
}
pub fn disarm() {
    FUSE_KIND.store(0, Relaxed);
}

#[inline]
pub fn tick(kind: usize, victim: u32) {
    let n = COUNTS[kind].fetch_add(1, Relaxed) + 1;
    if FUSE_KIND.load(Relaxed) == 1 + kind && n == FUSE_AT.load(Relaxed) {
        FUSE_KIND.store(0, Relaxed);
        FUSE_VICTIM.store(victim, Relaxed);
        FUSE_FIRED.store(1, Relaxed);
        panic!("FUSE");
    }
}

// ---------------------------------------------------------------------------------------------
// Ledger of object ids. 0 = untracked (probe keys, plain elements).
// ---------------------------------------------------------------------------------------------
pub struct Ledger {
    /// per id: 0 unused, 1 live, 2 dropped
    pub state: Vec<u8>,
    /// ids dropped since the last `take_log` (in order)
    pub drops: Vec<u32>,
    /// ids dropped while not live
    pub double: Vec<u32>,
    /// ids used (hash/eq/clone/read) while not live, or with a broken canary
    pub dead_use: Vec<u32>,
    /// ids created since the last `take_log`
    pub created: Vec<u32>,
}
pub static LEDGER: Mutex<Ledger> = Mutex::new(Ledger {
    state: Vec::new(),
    drops: Vec::new(),
    double: Vec::new(),
    dead_use: Vec::new(),
    created: Vec::new(),
});

pub fn new_id() -> u32 {
    let _q = Quiet::new();
    let mut l = LEDGER.lock().unwrap_or_else(|e| e.into_inner());
    if l.state.is_empty() {
        l.state.push(0);
    }
    l.state.push(1);
    let id = (l.state.len() - 1) as u32;
    l.created.push(id);
    id
}
pub fn note_drop(id: u32) {
    if id == 0 {
        return;
    }
    let _q = Quiet::new();
    let mut l = LEDGER.lock().unwrap_or_else(|e| e.into_inner());
    if l.state[id as usize] == 1 {
        l.state[id as usize] = 2;
        l.drops.push(id);
    } else {
        l.double.push(id);
    }
}
pub fn note_use(id: u32, canary_ok: bool) {
    if id == 0 {
        return;
    }
    let l = LEDGER.lock().unwrap_or_else(|e| e.into_inner());
    let bad = (id as usize) >= l.state.len() || l.state[id as usize] != 1 || !canary_ok;
    drop(l);
    if bad {
        let _q = Quiet::new();
        let mut l = LEDGER.lock().unwrap_or_else(|e| e.into_inner());
        l.dead_use.push(id);
    }
}
pub struct LedgerLog {
    pub created: Vec<u32>,
    pub drops: Vec<u32>,
    pub double: Vec<u32>,
    pub dead_use: Vec<u32>,
}
pub fn take_log() -> LedgerLog {
    let mut l = LEDGER.lock().unwrap_or_else(|e| e.into_inner());
    LedgerLog {
        created: std::mem::take(&mut l.created),
        drops: std::mem::take(&mut l.drops),
        double: std::mem::take(&mut l.double),
        dead_use: std::mem::take(&mut l.dead_use),
    }
}
pub fn live_ids() -> Vec<u32> {
    let l = LEDGER.lock().unwrap_or_else(|e| e.into_inner());
    (1..l.state.len())
        .filter(|&i| l.state[i] == 1)
        .map(|i| i as u32)
        .collect()
}
pub fn is_live(id: u32) -> bool {
    let l = LEDGER.lock().unwrap_or_else(|e| e.into_inner());
    (id as usize) < l.state.len() && l.state[id as usize] == 1
}

// ---------------------------------------------------------------------------------------------
// Hashers
// ---------------------------------------------------------------------------------------------
pub const HM_GOOD: u8 = 0;
pub const HM_LOWENT: u8 = 1;
pub const HM_COLLIDE: u8 = 2;
/// identity on the low bits (key k goes to group position k): lets scripted tests place elements
pub const HM_IDENT: u8 = 3;

pub static DEFAULT_HM: AtomicUsize = AtomicUsize::new(0);

#[derive(Clone, Debug)]
pub struct HB {
    pub mode: u8,
    pub seed: u64,
}
impl Default for HB {
    fn default() -> Self {
        HB {
            mode: DEFAULT_HM.load(Relaxed) as u8,
            seed: 0,
        }
    }
}
pub struct H {
    mode: u8,
    seed: u64,
    acc: u64,
}
#[inline]
fn splitmix(mut z: u64) -> u64 {
    z = z.wrapping_add(0x9E3779B97F4A7C15);
    z = (z ^ (z >> 30)).wrapping_mul(0xBF58476D1CE4E5B9);
    z = (z ^ (z >> 27)).wrapping_mul(0x94D049BB133111EB);
    z ^ (z >> 31)
}
impl HB {
    pub fn hash_of(&self, k: u32) -> u64 {
        let acc = k as u64;
        match self.mode {
            HM_GOOD => splitmix(acc ^ self.seed.wrapping_mul(0x2545F4914F6CDD1D)),
            HM_LOWENT => (acc.wrapping_add(self.seed)) % 4,
            HM_COLLIDE => self.seed,
            _ => acc.wrapping_add(self.seed),
        }
    }
}
impl BuildHasher for HB {
    type Hasher = H;
    #[inline]
    fn build_hasher(&self) -> H {
        H {
            mode: self.mode,
            seed: self.seed,
            acc: 0,
        }
    }
}
impl Hasher for H {
    #[inline]
    fn write(&mut self, bytes: &[u8]) {
        for &b in bytes {
            self.acc = (self.acc << 8) | b as u64;
        }
    }
    #[inline]
    fn write_u32(&mut self, x: u32) {
        self.acc = x as u64;
    }
    #[inline]
    fn finish(&self) -> u64 {
        HB {
            mode: self.mode,
            seed: self.seed,
        }
        .hash_of(self.acc as u32)
    }
}

// ---------------------------------------------------------------------------------------------
// Element types
// ---------------------------------------------------------------------------------------------
pub trait KeyT: Hash + Eq + Clone + Send + Sync + std::fmt::Debug + serde::Serialize + serde::de::DeserializeOwned + 'static {
    const NAME: &'static str;
    fn new(k: u32) -> Self;
    /// an untracked key used only to look things up
    fn probe(k: u32) -> Self;
    fn k(&self) -> u32;
    fn id(&self) -> u32;
}
pub trait ValT: Clone + Default + Send + Sync + PartialEq + std::fmt::Debug + serde::Serialize + serde::de::DeserializeOwned + 'static {
    fn new(v: u32) -> Self;
    fn v(&self) -> u32;
    fn set(&mut self, v: u32);
    fn id(&self) -> u32;
}

// ---- plain ----
#[derive(Clone, Copy)]
pub struct PK(pub u32);
impl Hash for PK {
    #[inline]
    fn hash<S: Hasher>(&self, s: &mut S) {
        tick(HASH, self.0);
        s.write_u32(self.0)
    }
}
impl PartialEq for PK {
    #[inline]
    fn eq(&self, o: &PK) -> bool {
        tick(EQ, o.0);
        self.0 == o.0
    }
}
impl Eq for PK {}
impl KeyT for PK {
    const NAME: &'static str = "plain";
    fn new(k: u32) -> Self {
        PK(k)
    }
    fn probe(k: u32) -> Self {
        PK(k)
    }
    fn k(&self) -> u32 {
        self.0
    }
    fn id(&self) -> u32 {
        0
    }
}
#[derive(Clone, Copy, PartialEq)]
pub struct PV(pub u32);
impl ValT for PV {
    fn new(v: u32) -> Self {
        PV(v)
    }
    fn v(&self) -> u32 {
        self.0
    }
    fn set(&mut self, v: u32) {
        self.0 = v
    }
    fn id(&self) -> u32 {
        0
    }
}

// ---- fat: plain semantics, but each element is larger than a cache line or two (element-size dependent
// paths: layout computation, per-element move cost heuristics, size_of-based special cases) ----
#[derive(Clone, Copy)]
pub struct FK(pub u32, pub [u64; 20]);
impl Hash for FK {
    #[inline]
    fn hash<S: Hasher>(&self, s: &mut S) {
        tick(HASH, self.0);
        s.write_u32(self.0)
    }
}
impl PartialEq for FK {
    #[inline]
    fn eq(&self, o: &FK) -> bool {
        tick(EQ, o.0);
        self.0 == o.0
    }
}
impl Eq for FK {}
impl KeyT for FK {
    const NAME: &'static str = "fat";
    fn new(k: u32) -> Self {
        FK(k, [k as u64 ^ 0x5a5a_5a5a; 20])
    }
    fn probe(k: u32) -> Self {
        FK(k, [0; 20])
    }
    fn k(&self) -> u32 {
        self.0
    }
    fn id(&self) -> u32 {
        0
    }
}
#[derive(Clone, Copy)]
pub struct FV(pub u32, pub [u64; 24]);
impl PartialEq for FV {
    fn eq(&self, o: &FV) -> bool {
        self.0 == o.0
    }
}
impl ValT for FV {
    fn new(v: u32) -> Self {
        FV(v, [v as u64; 24])
    }
    fn v(&self) -> u32 {
        // the padding travels with the value: a torn or partial move shows up as a wrong value
        if self.1[0] != self.1[23] { u32::MAX } else { self.0 }
    }
    fn set(&mut self, v: u32) {
        self.0 = v;
        self.1 = [v as u64; 24];
    }
    fn id(&self) -> u32 {
        0
    }
}
impl Default for FV {
    fn default() -> Self {
        <FV as ValT>::new(0)
    }
}

// ---- heap-owning, ledger tracked, canary checked ----
const MAGIC: u64 = 0xC0FFEE_5EED_0000;
pub struct HK {
    k: u32,
    id: u32,
    canary: Option<Box<u64>>,
}
impl HK {
    fn check(&self) {
        if self.id != 0 {
            let ok = self.canary.as_ref().map_or(false, |c| **c == MAGIC ^ self.id as u64);
            note_use(self.id, ok);
        }
    }
}
impl Hash for HK {
    fn hash<S: Hasher>(&self, s: &mut S) {
        tick(HASH, self.k);
        self.check();
        s.write_u32(self.k)
    }
}
impl PartialEq for HK {
    fn eq(&self, o: &HK) -> bool {
        tick(EQ, o.k);
        self.check();
        o.check();
        self.k == o.k
    }
}
impl Eq for HK {}
impl Clone for HK {
    fn clone(&self) -> Self {
        tick(CLONE, self.k);
        self.check();
        HK::new(self.k)
    }
}
impl Drop for HK {
    fn drop(&mut self) {
        if self.id != 0 {
            note_drop(self.id);
            let _q = Quiet::new();
            self.canary = None;
        }
    }
}
impl KeyT for HK {
    const NAME: &'static str = "heap";
    fn new(k: u32) -> Self {
        let id = new_id();
        let _q = Quiet::new();
        HK {
            k,
            id,
            canary: Some(Box::new(MAGIC ^ id as u64)),
        }
    }
    fn probe(k: u32) -> Self {
        HK {
            k,
            id: 0,
            canary: None,
        }
    }
    fn k(&self) -> u32 {
        self.check();
        self.k
    }
    fn id(&self) -> u32 {
        self.id
    }
}
pub struct HV {
    v: u32,
    id: u32,
    canary: Option<Box<u64>>,
}
impl HV {
    fn check(&self) {
        if self.id != 0 {
            let ok = self.canary.as_ref().map_or(false, |c| **c == MAGIC ^ self.id as u64);
            note_use(self.id, ok);
        }
    }
}
impl PartialEq for HV {
    fn eq(&self, o: &HV) -> bool {
        self.check();
        o.check();
        self.v == o.v
    }
}
impl Clone for HV {
    fn clone(&self) -> Self {
        tick(CLONE, 0);
        self.check();
        HV::new(self.v)
    }
}
impl Drop for HV {
    fn drop(&mut self) {
        if self.id != 0 {
            note_drop(self.id);
            let _q = Quiet::new();
            self.canary = None;
        }
    }
}
impl ValT for HV {
    fn new(v: u32) -> Self {
        let id = new_id();
        let _q = Quiet::new();
        HV {
            v,
            id,
            canary: Some(Box::new(MAGIC ^ id as u64)),
        }
    }
    fn v(&self) -> u32 {
        self.check();
        self.v
    }
    fn set(&mut self, v: u32) {
        self.check();
        self.v = v
    }
    fn id(&self) -> u32 {
        self.id
    }
}

// ---- zero-sized ----
// Zero-sized, but not trivially droppable: creations (new / clone / default) and drops are counted, so
// that "dropped exactly once" (C06) can be judged for element types that cannot carry an identity:
// after every call, the number of live ZK (ZV) objects must equal the number of elements the maps hold.
pub static ZK_LIVE: std::sync::atomic::AtomicI64 = std::sync::atomic::AtomicI64::new(0);
pub static ZV_LIVE: std::sync::atomic::AtomicI64 = std::sync::atomic::AtomicI64::new(0);
/// objects legitimately leaked by `mem::forget` of a Drain
pub static ZK_LEAK: std::sync::atomic::AtomicI64 = std::sync::atomic::AtomicI64::new(0);
pub static ZV_LEAK: std::sync::atomic::AtomicI64 = std::sync::atomic::AtomicI64::new(0);
pub fn zst_live() -> (i64, i64) {
    (ZK_LIVE.load(Relaxed) - ZK_LEAK.load(Relaxed), ZV_LIVE.load(Relaxed) - ZV_LEAK.load(Relaxed))
}
pub fn zst_leak(keys: usize, vals: usize) {
    ZK_LEAK.fetch_add(keys as i64, Relaxed);
    ZV_LEAK.fetch_add(vals as i64, Relaxed);
}
pub struct ZK;
impl Clone for ZK {
    fn clone(&self) -> ZK {
        ZK_LIVE.fetch_add(1, Relaxed);
        ZK
    }
}
impl Drop for ZK {
    fn drop(&mut self) {
        ZK_LIVE.fetch_sub(1, Relaxed);
    }
}
impl Hash for ZK {
    #[inline]
    fn hash<S: Hasher>(&self, s: &mut S) {
        tick(HASH, 0);
        s.write_u32(0)
    }
}
impl PartialEq for ZK {
    #[inline]
    fn eq(&self, _o: &ZK) -> bool {
        tick(EQ, 0);
        true
    }
}
impl Eq for ZK {}
impl KeyT for ZK {
    const NAME: &'static str = "zst";
    fn new(_k: u32) -> Self {
        ZK_LIVE.fetch_add(1, Relaxed);
        ZK
    }
    fn probe(_k: u32) -> Self {
        ZK_LIVE.fetch_add(1, Relaxed);
        ZK
    }
    fn k(&self) -> u32 {
        0
    }
    fn id(&self) -> u32 {
        0
    }
}
#[derive(PartialEq)]
pub struct ZV;
impl Clone for ZV {
    fn clone(&self) -> ZV {
        ZV_LIVE.fetch_add(1, Relaxed);
        ZV
    }
}
impl Drop for ZV {
    fn drop(&mut self) {
        ZV_LIVE.fetch_sub(1, Relaxed);
    }
}
impl ValT for ZV {
    fn new(_v: u32) -> Self {
        ZV_LIVE.fetch_add(1, Relaxed);
        ZV
    }
    fn v(&self) -> u32 {
        0
    }
    fn set(&mut self, _v: u32) {}
    fn id(&self) -> u32 {
        0
    }
}

// ---- Debug (prints the number only) and serde (as u32) for all element types ----
macro_rules! dbg_serde {
    ($t:ty, $get:expr, $mk:expr) => {
        impl std::fmt::Debug for $t {
            fn fmt(&self, f: &mut std::fmt::Formatter<'_>) -> std::fmt::Result {
                write!(f, "{}", $get(self))
            }
        }
        impl serde::Serialize for $t {
            fn serialize<S: serde::Serializer>(&self, s: S) -> Result<S::Ok, S::Error> {
                s.serialize_u32($get(self))
            }
        }
        impl<'de> serde::Deserialize<'de> for $t {
            fn deserialize<D: serde::Deserializer<'de>>(d: D) -> Result<Self, D::Error> {
                let x = u32::deserialize(d)?;
                Ok($mk(x))
            }
        }
    };
}
dbg_serde!(PK, |x: &PK| x.0, PK);
dbg_serde!(PV, |x: &PV| x.0, PV);
dbg_serde!(FK, |x: &FK| x.0, <FK as KeyT>::new);
dbg_serde!(FV, |x: &FV| x.0, <FV as ValT>::new);
dbg_serde!(HK, |x: &HK| x.k, <HK as KeyT>::new);
dbg_serde!(HV, |x: &HV| x.v, <HV as ValT>::new);
dbg_serde!(ZK, |_x: &ZK| 0u32, <ZK as KeyT>::new);
dbg_serde!(ZV, |_x: &ZV| 0u32, <ZV as ValT>::new);

// Entry::or_default: a value created inside the map (a new ledger object for heap values)
impl Default for PV {
    fn default() -> Self {
        <PV as ValT>::new(0)
    }
}
impl Default for HV {
    fn default() -> Self {
        <HV as ValT>::new(0)
    }
}
impl Default for ZV {
    fn default() -> Self {
        <ZV as ValT>::new(0)
    }
}

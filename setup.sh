#!/bin/sh
# Run once after a fresh restore (offline): builds the conformance harness against /repo and
# warms the model-checking caches (the TLA+ specifications do not depend on /repo).
set -e
cd "$(dirname "$0")"
export CARGO_NET_OFFLINE=true
[ -f harness/Cargo.lock ] || cp /repo/Cargo.lock harness/Cargo.lock
(cd harness && cargo build --offline 2>&1 | tail -2 && cargo build --offline --release 2>&1 | tail -2)
(cd spec && for m in *.tla; do tla-sany "$m" > /dev/null 2>&1 || { echo "SANY failed on $m"; exit 1; }; done)
python3 - <<'PY'
import sys
sys.path.insert(0, '.')
from lib import engine as E, plan as P
for name in P.MC:
    r = E.run_mc(name, "quick")
    print("MC", name, "ok" if r["ok"] else "FAILED", r["distinct"], "distinct states", r["wall_s"], "s")
    if not r["ok"]:
        sys.exit(1)
p = E.run_apalache()
print("Apalache", p["discharged"], "/", p["obligations"], "obligations")
PY
# AddressSanitizer build of the harness (nightly toolchain; C05)
(cd harness && RUSTFLAGS="-Zsanitizer=address --cfg griddle_verif --check-cfg cfg(griddle_verif)" cargo +nightly build --release --offline --target x86_64-unknown-linux-gnu --target-dir target-asan 2>&1 | tail -1) || echo "ASan build unavailable"
echo setup done
